HOOK_COMMITS = ["d183566"]
NOTES = "Driver: ./check <ID> --tier quick|thorough. Exit 0 held / 1 VIOLATION / 2 inconclusive (harness trouble, never a violation). Known findings: known_findings.json."
NOT_APPLICABLE = {}
META = {
    "C14": {
        "text": "Stateful property-based exploration of the real msgpacker.Packer against a pending-list reference model: exactly-once, in-order delivery, error propagation, forced flush at deterministic thresholds and the global counter invariant are checked after every step of tens of thousands of generated histories. Sampling, not proof; the space (sizes x thresholds x interleavings of up to 3 packers) is small enough that every trigger combination is hit thousands of times.",
        "design_ref": "DESIGN.md section 4 C14",
        "note": "Trusts the harness model (60 lines) and rapid. The age trigger is wall-clock driven; flushes it causes are accepted, not required.",
        "technique": "property-based testing (rapid), stateful model-based oracle",
    },
}
