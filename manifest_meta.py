HOOK_COMMITS = ["d183566"]
NOTES = "Driver: ./check <ID> --tier quick|thorough. Exit 0 held / 1 VIOLATION / 2 inconclusive (harness trouble, never a violation). Known findings: known_findings.json."
NOT_APPLICABLE = {}
META = {
    "C14": {
        "text": "Stateful property-based exploration of the real msgpacker.Packer against a pending-list reference model: exactly-once, in-order delivery, error propagation, forced flush at deterministic thresholds and the global counter invariant are checked after every step of tens of thousands of generated histories. Sampling, not proof; the space (sizes x thresholds x interleavings of up to 3 packers) is small enough that every trigger combination is hit thousands of times.",
        "design_ref": "DESIGN.md section 4 C14",
        "note": "Trusts the harness model (60 lines) and rapid. The age trigger is wall-clock driven; flushes it causes are accepted, not required.",
        "technique": "property-based testing (rapid), stateful model-based oracle",
    },
    "C16": {
        "text": "The real ChannelMapping is explored with random offer sequences for all count pairs 0..6 and exhaustively for counts 1..3 with sequences up to length 5/6, checking function/stability/quota/totality on public queries only. The exhaustive part is complete for its bound; larger counts are sampled.",
        "design_ref": "DESIGN.md section 4 C16",
        "note": "Layer 1 covers the quota check in ChannelMapping through the manager's direct-assignment protocol restated in the harness; the manager's wait/forward path is covered by the reader harness where registered.",
        "technique": "property-based testing (rapid) + bounded exhaustive enumeration, invariant oracle",
    },
    "C17": {
        "text": "Stateful model-based exploration of the real ReplicateMeteImpl: after every generated report/remove/reload step the JSON store, the in-memory view and a set-union model must agree. Found and led to two fix: commits (merged shards not kept in memory; partition messages not removed).",
        "design_ref": "DESIGN.md section 4 C17",
        "note": "Store fake = map with JSON round trip (same encoding as the etcd/MySQL replicate stores). Concurrency of reports is not explored (the implementation serialises on one mutex).",
        "technique": "property-based testing (rapid), stateful model-based oracle",
    },
}
