HOOK_COMMITS = ["d183566", "d0e1250", "06b8afe", "b4f4d44", "3e38372", "df3b9cc", "d08fc03"]
NOTES = "Driver: ./check <ID> --tier quick|thorough. Exit 0 held / 1 VIOLATION / 2 inconclusive (harness trouble, never a violation). Known findings: known_findings.json."
NOT_APPLICABLE = {}
META = {
    "C14": {
        "text": "Stateful property-based exploration of the real msgpacker.Packer against a pending-list reference model: exactly-once, in-order delivery, error propagation, forced flush at deterministic thresholds and the global counter invariant are checked after every step of tens of thousands of generated histories. Sampling, not proof; the space (sizes x thresholds x interleavings of up to 3 packers) is small enough that every trigger combination is hit thousands of times. The write callback of the histories may rewrite the messages in place (as the production writer does), so that packs measure differently after the callback. TestC14_Service drives the loop that owns the batcher inside the real service: rows held back by the batcher, then the channel is shut down by pause / delete; once at rest the global counter must be zero again.",
        "design_ref": "DESIGN.md section 4 C14",
        "note": "Trusts the harness model (60 lines) and rapid. The age trigger is wall-clock driven; flushes it causes are accepted, not required.",
        "technique": "property-based testing (rapid), stateful model-based oracle",
    },
    "C16": {
        "text": "The real ChannelMapping is explored with random offer sequences for all count pairs 0..6 and exhaustively for counts 1..3 with sequences up to length 5/6, checking function/stability/quota/totality on public queries only. The exhaustive part is complete for its bound; larger counts are sampled. Layer 2 (TestC16_Manager): the real channel manager over contended catalogs with equal channel counts; the assignment is read off the tick-only packs and must be stable and one-to-one. It found the known finding F-C16-stale-forward. TestC16_FailedStart injects a failing connection check when the handler of a newly assigned pair is created and offers the pair again: nothing may be left behind by the failed start.",
        "design_ref": "DESIGN.md section 4 C16",
        "note": "Layer 1 covers the quota check in ChannelMapping through the manager's direct-assignment protocol restated in the harness; the manager's wait/forward path is covered by the reader harness where registered.",
        "technique": "property-based testing (rapid) + bounded exhaustive enumeration, invariant oracle",
    },
    "C17": {
        "text": "Stateful model-based exploration of the real ReplicateMeteImpl: after every generated report/remove/reload step the JSON store, the in-memory view and a set-union model must agree. Found and led to two fix: commits (merged shards not kept in memory; partition messages not removed). Reports may occasionally name a shard outside the target set (the union then never equals the target set).",
        "design_ref": "DESIGN.md section 4 C17",
        "note": "Store fake = map with JSON round trip (same encoding as the etcd/MySQL replicate stores). Concurrency of reports is not explored (the implementation serialises on one mutex).",
        "technique": "property-based testing (rapid), stateful model-based oracle",
    },
    "C07": {
        "text": "Round-trip oracle through an independent decoder: the bytes captured at the DataHandler seam are decoded with Milvus' own unmarshal dispatcher (as the receiving proxy does) and compared message by message with deep copies of what was handed to the real ChannelWriter, for generated packs of all supported types, with/without replicate id and name mapping, concurrent channels, and failing / malformed downstream answers. TestC07_InFlightCancel: the context ends while the downstream call is in flight.",
        "design_ref": "DESIGN.md section 4 C07",
        "note": "Trusts the Milvus decoder and proto.Equal. The real gRPC handler is replaced by a recording fake at api.DataHandler.",
        "technique": "property-based testing (rapid), round-trip through independent decoder",
    },
    "C08": {
        "text": "The decision function is checked exhaustively over all order relations x presence x extreme magnitudes against a table re-derived from the statement; generated create/drop/re-create timelines with reordered event/op streams and a restart with the horizon table check the black-box consequence (stale operations skipped without touching newer incarnations, current ones applied exactly once) against an incarnation-tagging downstream model.",
        "design_ref": "DESIGN.md section 4 C08",
        "note": "Part 1 is complete for its finite abstraction. Part 2 samples; the run stops at the first not-ready error because the service would pause the task there.",
        "technique": "exhaustive decision-table differential + stateful property-based testing (rapid) with reference model",
    },
    "C09": {
        "text": "Differential against a reference mapping function over the full product of operation kinds x source database x mapping shape, comparing routing database, request name fields, probe names and names inside serialized DML. Found and fixed four defects (AlterIndex routed to default; ReleasePartitions routed by source db; exact vs whole-db precedence depending on map order; partition events re-probing with mapped db). TestC09_MappingUpdate: operations before and after UpdateNameMappings on a shared writer.",
        "design_ref": "DESIGN.md section 4 C09",
        "note": "Routing is observed as ReplicateParam.Database at the api.DataHandler seam (what MilvusDataHandler uses to pick the client).",
        "technique": "property-based testing (rapid), differential against reference mapping",
    },
    "C20": {
        "text": "Every generated op message / API event is pushed through the real writer and the single resulting downstream request is deep-compared with a copy of the source (identity fields, list filtering, schema, shard number, consistency, properties, replication stamp); malformed packs must be rejected with zero downstream calls. Load/release partition lists may name a partition that is neither dropped nor present downstream yet: not ready, no request, never a truncated list. TestC20_RealHandler drives the real MilvusDataHandler + SDK against the fake gRPC downstream for 13 operation kinds (request identity fields and routing).",
        "design_ref": "DESIGN.md section 4 C20",
        "note": "Names are excluded here (C09). Kafka downstream not exercised.",
        "technique": "property-based testing (rapid), field-by-field differential with the source message",
    },
    "C01": {
        "text": "Generated catalogs, pack scripts and registration/arrival interleavings are run through the real replicateChannelManager between a fake dispatcher and its public output channels; after goroutine-level quiescence a two-sided oracle compares everything fed with everything emitted (tags make every row attributable). Found the nil-position defect (fixed) and the forward/tick overtake (known finding). TestC01_Repeat adds repeated notifications of a collection (a second start lined up with the first inside the downstream lookup, or again between two packs): both succeed, no source shard is subscribed twice, same oracle. TestC01_Drop: a drop-partition message in the stream of a multi-shard collection read with skew (partition messages behind another shard's drop must still be handed over); first packs whose messages all carry the pack end time.",
        "design_ref": "DESIGN.md section 4 C01",
        "note": "Schedules: only registration-vs-arrival order and the natural concurrency of handler goroutines are explored; Go scheduler interleavings are sampled. Fake dispatcher delivers packs shaped like the real one (nil / pchannel positions, BeginTs=0).",
        "technique": "property-based testing (rapid), stateful generation, two-sided multiset/sequence oracle",
    },
    "C02": {
        "text": "Same runs as C01 with an addressing/routing oracle on every emitted message: ids, shard bijection, output channel, position channel names and message ids, for aligned and skewed placements. TestC02_SameName repeats it over catalogs whose collections all carry one name (one per database) with frequent late partition ids. Channel numbers in prefix relation (dml_1 / dml_10) and reversed downstream shard lists are generated.",
        "design_ref": "DESIGN.md section 4 C02",
        "note": "Downstream described by a fake api.TargetAPI; the pairing the code chooses is only required to be a bijection.",
        "technique": "property-based testing (rapid), validity-predicate oracle over emitted messages",
    },
    "C03": {
        "text": "The harness owns the schedule of the window the statement names: build-tag-guarded yield points park stream goroutines between computing and enqueueing a pack and a generated schedule orders the releases, with arbitrary clock skew between the multiplexed streams. Found two defects (enqueue outside the channel lock; tick-only pack closed with its source end time), both fixed. TestC03_Resume covers the resume clause: checkpoints are taken as the server persists them, the manager is closed (pause of the target / process restart) and a new one resumes a drawn subset of the streams in a drawn order; time must not go back across the resume. It found the known finding F-C03-resume-order. TestC03_SharedPositions: twin packs of collections on one source channel share their position objects, as the real dispatcher hands them out.",
        "design_ref": "DESIGN.md section 4 C03",
        "note": "Only the compute/enqueue window and feed order are controlled; other preemption points are sampled. With the fix in place the lock makes reordered releases impossible, so the schedule now exercises contention (a feed while another pack sits in the window).",
        "technique": "property-based testing (rapid) with harness-controlled schedule (yield hooks), invariant oracle over the output sequence",
    },
    "C04": {
        "text": "Generated drop scenarios (live and dropped-while-down, collections and partitions, 1..3 shards, stop points, registration timing) against the real manager; an event-count/ordering oracle on the public event channel with a logical clock. Found the barrier busy loop, two synthetic-drop defects (fixed) and the undersized partition barrier (known finding). TestC04_PendingEvent (stop while the drop request waits for room in the event channel) and TestC04_Lifecycle (repeated notification, stop and new start on the same manager, then the drop).",
        "design_ref": "DESIGN.md section 4 C04",
        "note": "Restart is modelled by a fresh manager with the catalog state and checkpoints the collection reader would pass; the persisted drop-message table is covered by C17.",
        "technique": "property-based testing (rapid), scenario generator with logical-clock oracle",
    },
    "C12": {
        "text": "Model-based stateful testing with a full-state oracle: after every generated operation on one tenant the complete content of the backend is compared with a map model, so interference with any other record (other tenant, prefix-related task or collection id, other channel entry) is detected immediately; DeleteTask is additionally run with a failure injected at every position for the all-or-nothing clause. Found cross-tenant reads/deletes in the MySQL store, the unscoped etcd replicate store and the over-wide reload prefix (all fixed).",
        "design_ref": "DESIGN.md section 4 C12",
        "note": "etcd is the real server (embedded); MySQL is represented by a fake engine implementing the statement shapes of mysql.go with documented LIKE/upsert/transaction semantics - differences of a real server (collation, isolation level) are assumptions.",
        "technique": "property-based testing (rapid), stateful model-based oracle with full-state comparison, fault injection",
    },
    "C13": {
        "text": "The interleaving of catalog writes with the reader's subscribe/watch/list/start-watch steps is owned by the harness (decorating MetaOp) on top of a real etcd, real EtcdOp, real CollectionReader and real channel manager. Found the duplicate-start error, the duplicate create-partition event and the partition-before-collection hang (all fixed). The creation of the second database is part of the history; named selections may name it; a collection must be started under its own database name.",
        "design_ref": "DESIGN.md section 4 C13",
        "note": "Only write-vs-reader-step order is controlled; delivery order between the collection and partition watchers and the 16-worker event pool are sampled.",
        "technique": "property-based testing (rapid) with harness-controlled interleaving points, end-state oracle",
    },
    "C15": {
        "text": "Differential test of GetAllDroppedObj() on generated catalogs written into a real etcd against a reference function derived from the statement, compared as whole maps (no missing, no extra, right horizon). Found the stale database name for partitions without a target (fixed). Ids may cross a power of ten within a catalog (listing order differs from creation order). TestC15_MovingSource owns the interleaving of the snapshot's five reads with writes of the source (saved time advanced, a dropped name created again before a drawn read) and checks that no entry carries a horizon at or above the creation time of a live incarnation of the final catalog.",
        "design_ref": "DESIGN.md section 4 C15",
        "note": "Real etcd + real EtcdOp; target is a fake api.TargetAPI. The moving-source test reaches the client inside EtcdOp by reflection (no hook in the repository) and judges safety only, not completeness of the table.",
        "technique": "property-based testing (rapid), differential against reference function",
    },
    "C10": {
        "text": "Stateful property-based exploration of create / failing create / delete / restart histories through the real HTTP handler and MetaCDC with a real etcd meta store: exclusivity per target on both selection paths, selection bounds at acceptance and constancy afterwards, side-effect freedom of rejects, and equality of the duplicate bookkeeping with a reference computed from the persisted tasks after every step. Found five defects (user-role flag out of step, partially overlapping wildcards accepted, shared exclusion removed with one task, bookkeeping reverted twice after a failed start), all fixed. Concurrent create requests for one target are part of the histories (invariants on whatever was accepted). Tasks without auto start are part of the histories.",
        "design_ref": "DESIGN.md section 4 C10",
        "note": "Selection is evaluated through the exported selection functions over a 4x3 name universe (the functions the readers and the DDL path call), not by observing replicated traffic; traffic-level exclusivity is exercised in the C05/C06 simulator runs. Store failures are single transient faults.",
        "technique": "property-based testing (rapid), stateful model-based oracle + reference bookkeeping, fault injection",
    },
    "C19": {
        "text": "Generated requests (grammar of valid parts + labelled planted invalidities + adversarial values + wrong types + raw non-UTF-8 bytes) and coverage-guided byte fuzzing against the real HTTP handler with an invariant oracle: well-formed single JSON answer with an allowed code, planted invalidity => rejected, and state triple (task list, full store dump, duplicate bookkeeping) unchanged by every non-200 answer. Found four defects (dotted names crash the handler, checkpoints of a rejected request stay in the store, non-UTF-8 request type and non-UTF-8 task id panic in the metrics), all fixed. The grammar includes an rpc position without channel name.",
        "design_ref": "DESIGN.md section 4 C19",
        "note": "The handler is driven in-process through httptest (no TCP). Native fuzzing is in the thorough tier only (cannot be seeded); its findings are kept as raw bodies under replays/C19 and re-run by the quick tier.",
        "technique": "property-based testing (rapid) + native coverage-guided fuzzing (go test -fuzz), invariant + metamorphic (state unchanged) oracle",
    },
    "C18": {
        "text": "Canary-based information-flow testing: every secret of a generated create request is a unique marker, the service runs at debug level with its complete log output captured at file-descriptor level, and every response and log increment of generated API / failure / restart histories is searched for the markers. Found the four leaking log sites (failed create prints the request, failed connection check prints the connect parameters, failed start during reload prints the task record, request log does not mask Kafka SASL credentials), fixed in one commit. Requests may also carry credentials in the connect param of the other downstream kind. Overlapping pause / resume requests are generated.",
        "design_ref": "DESIGN.md section 4 C18",
        "note": "In-process (not a child process): the capture re-points fd 1/2, so output of linked C libraries (librdkafka) is included. Kafka targets are limited to one per case because their producers are never closed by the code under test.",
        "technique": "property-based testing (rapid), stateful generation with fault injection, invariant oracle (canary never observable)",
    },
    "C11": {
        "text": "Model-based stateful testing of the task lifecycle through the real API with live replication underneath: an explicit state machine is the model, four views of the state are compared with it after every generated step (with store faults and restarts), and the cleanup obligations are checked on observable resources (reference counts, reader registrations, dispatcher registrations, traffic reaching the downstream, goroutine states). Found nine defects, all fixed: checkpoint re-created after delete, stop of one collection closes the other streams of the handler, collections added to an existing handler are never stopped, one stopped/failing task ends the shared loops of its target, pause with failing store stops the task although everything says Running, failed start leaks readers and entity, closed entity steals the channel notification of its successor, ... Internal Running->Paused transitions are part of the histories: the replication of a running task fails (rejected writes, unknown partition), optionally with a pause request overtaking the failure report.",
        "design_ref": "DESIGN.md section 4 C11",
        "note": "In-process simulator, restart = new incarnation in the same process (fenced predecessor). Liveness of running tasks is judged by quiescence, never by a timeout alone.",
        "technique": "property-based testing (rapid), stateful model-based oracle (explicit state machine), fault injection, resource-level invariants",
    },
    "C06": {
        "text": "Fault-injection scenarios over the full in-process service with two tasks: generated fault class, position, persistence, batching and task placement; an end-state oracle on task states, reasons, downstream traffic, checkpoints and on what arrives after resume. Found four defects, all fixed: error events without task id pause another task in the store while the failing one runs on and skips the failing messages; a failure of one task ends the shared loops / batch of its target; the resume time filter uses the shifted target time and drops unacknowledged source messages. A fifth class rejects a DDL: a collection selected by the task is created upstream while it runs and the downstream rejects its CreateCollection; a panic of the service is read from the fd-level capture file. This class found the stale failure mark of a stream (fix 53f00a7). Further classes: an unknown partition named by a delete, rows for the collection whose creation fails, the order 'DDL pauses first, start fails afterwards' (owned by holding the reader's lookups), a lookup refused while the task is resumed (start_rejected).",
        "design_ref": "DESIGN.md section 4 C06",
        "note": "In-process; a panic of the service kills the test binary and is reported by the driver as a violation (no recover in harness goroutines).",
        "technique": "property-based testing (rapid), fault injection at generated positions, end-state oracle judged at quiescence",
    },
    "C05": {
        "text": "Generated scripts of traffic, write/checkpoint faults, pauses and crash points (before the write, between acknowledgement and checkpoint, after the checkpoint) against the full in-process service, with a monitor evaluated at every checkpoint write (never ahead of what the downstream accepted) and an end-state oracle (every row arrives at least once after resume / restart). Found the resume time filter defect (fixed, see C06) and the dead shared loops (fixed, see C11). The never-ahead monitor also found the known finding F-C05-resume-without-checkpoint (a channel without persisted checkpoint is reopened at the latest position). TestC05_Drop covers the frozen clause (record of a collection whose drop was replayed stays byte-identical under traffic, pause/resume and restart) and found the op-position written into a frozen record (fix b2b15e2). TestC05_Drop covers the frozen clause; a write fault followed by a rejected state update is generated synchronously.",
        "design_ref": "DESIGN.md section 4 C05",
        "note": "Crash is simulated inside the test process by fencing the incarnation's store and source streams at the chosen point; a child-process SUT was designed but not built. End-state verdicts are only taken at quiescence.",
        "technique": "property-based testing (rapid), generated fault/crash scripts, history invariant (monitor at every checkpoint write) + end-state oracle",
    },
}
