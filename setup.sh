#!/bin/sh
# Offline setup: warm the Go build cache for the harness packages (no network needed; modules come from the module cache).
set -e
cd "$(dirname "$0")/harness"
export GOFLAGS=-mod=mod GOPROXY=off GOSUMDB=off GOTOOLCHAIN=local
go vet -tags verif ./stats/ >/dev/null 2>&1 || true
for p in $(go list -tags verif ./... 2>/dev/null); do
  go test -c -tags verif -vet=off -o /dev/null "$p" >/dev/null 2>&1 || echo "setup: build of $p failed (checks will report it)" >&2
done
exit 0
