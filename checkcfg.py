"""Per-property configuration of the driver (./check)."""

def T(shards, checks, **kw):
    d = {"shards": shards, "checks": checks}
    d.update(kw)
    return d

PROPS = {
    "C14": {
        "pkg": "hpure", "test": "TestC14", "replay_test": "TestC14_Replay", "level": "exploration",
        "quick": T(16, 1500), "thorough": T(16, 40000, timeout=3000),
        "rule": "rapid-generated histories of Receive/ClearMsgs/sleep over 1..3 Packers sharing the global memory budget, thresholds "
                "(count 1..6, size 1/2/512 KB, age 1 ms/off, memory 1..64 KB) and message sizes drawn around them, callback failing at drawn flushes; "
                "oracle = per-packer pending-list model (exactly-once, in order, error propagated, forced flush on deterministic thresholds, counter zero when empty). "
                "non-trivial = at least 2 flushes caused by at least 2 different triggers (count/size/age/memory/shutdown); distinct = distinct operation history",
        "assumptions": ["the age trigger depends on the wall clock; the oracle accepts a flush without deterministic trigger only when the age threshold is 1 ms",
                        "the global memory limit is reset between cases through the verif hook ResetMemoryForVerif"],
    },
}
