"""Per-property configuration of the driver (./check)."""

def T(shards, checks, **kw):
    d = {"shards": shards, "checks": checks}
    d.update(kw)
    return d

PROPS = {
    "C14": {
        "pkg": "hpure", "test": "TestC14", "replay_test": "TestC14_Replay", "level": "exploration",
        "quick": T(16, 0, tests=[{"test": "TestC14", "checks": 1500}, {"test": "TestC14_Service", "checks": 3, "pkg": "hserver"}]),
        "thorough": T(16, 0, timeout=5000, tests=[{"test": "TestC14", "checks": 100000}, {"test": "TestC14_Service", "checks": 60, "pkg": "hserver"}]),
        "rule": "rapid-generated histories of Receive/ClearMsgs/sleep over 1..3 Packers sharing the global memory budget, thresholds "
                "(count 1..6, size 1/2/512 KB, age 1 ms/off, memory 1..64 KB) and message sizes drawn around them, callback failing at drawn flushes; "
                "oracle = per-packer pending-list model (exactly-once, in order, error propagated, forced flush on deterministic thresholds, counter zero when empty). "
                "non-trivial = at least 2 flushes caused by at least 2 different triggers (count/size/age/memory/shutdown); distinct = distinct operation history",
        "assumptions": ["the age trigger depends on the wall clock; the oracle accepts a flush without deterministic trigger only when the age threshold is 1 ms",
                        "the global memory limit is reset between cases through the verif hook ResetMemoryForVerif"],
    },
    "C16": {
        "pkg": "hpure", "test": "TestC16", "replay_test": "TestC16_Replay", "level": "exploration",
        "quick": T(8, 0, fixed=["TestC16_Exhaustive"], timeout=900, tests=[{"test": "TestC16", "checks": 3000}, {"test": "TestC16_Manager", "checks": 40, "pkg": "hreader", "shards": 16}, {"test": "TestC16_FailedStart", "checks": 30, "pkg": "hreader", "shards": 2}]),
        "thorough": T(16, 0, fixed=["TestC16_Exhaustive"], timeout=7000, tests=[{"test": "TestC16", "checks": 150000}, {"test": "TestC16_Manager", "checks": 500, "pkg": "hreader"}, {"test": "TestC16_FailedStart", "checks": 300, "pkg": "hreader", "shards": 4}]),
        "rule": "layer 1: real util.ChannelMapping driven by the manager's direct-assignment protocol over counts 0..6 x 0..6 and random offer sequences (rapid), "
                "plus exhaustive enumeration of all offer sequences of length 5 (quick) / 6 (thorough) for counts 1..3 x 1..3; oracle on public queries: function, stability, "
                "quota ceil(larger/smaller) (1-to-1 for equal counts), assignment iff quota free. non-trivial = at least one offer refused by the quota after >= 2 assignments; distinct = distinct (counts, offer sequence)",
        "assumptions": ["layer 2 (TestC16_Manager, reader harness): the real replicateChannelManager over generated catalogs with equal channel counts and skewed placements (direct assignment, waiting handlers, forwarding); the assignment is read off the tick-only packs (they leave on the channel the handler is bound to): never changes, one-to-one"],
    },
    "C17": {
        "pkg": "hpure", "test": "TestC17", "replay_test": "TestC17_Replay", "level": "exploration",
        "quick": T(16, 1500), "thorough": T(16, 100000, timeout=5000),
        "rule": "rapid state machine over the real ReplicateMeteImpl with a JSON-round-tripping in-memory store: report(task,msg,1..2 shards) / remove / reload over 3 tasks (ids in prefix relation) x 1..3 messages "
                "(collection and partition kind, 1..4 target shards); oracle after every step: store == memory == model (union of reports), ready iff union == target. "
                "non-trivial = some message received >= 3 reports, or a reload happened while a message was partially reported; distinct = distinct history",
        "assumptions": ["callers always pass the same TargetChannels for a message and report shards from that set (what replicate_channel_manager does)"],
    },
    "C07": {
        "pkg": "hwriter", "test": "TestC07", "level": "exploration",
        "quick": T(16, 0, tests=[{"test": "TestC07", "checks": 400}, {"test": "TestC07_InFlightCancel", "checks": 40, "shards": 4}]),
        "thorough": T(16, 0, timeout=5000, tests=[{"test": "TestC07", "checks": 60000}, {"test": "TestC07_InFlightCancel", "checks": 1000, "shards": 8}]),
        "rule": "TestC07_InFlightCancel: the caller's context ends (cancel or deadline) while the downstream call is in flight and the call then fails: the failure must be returned, no checkpoint. TestC07: rapid-generated packs (1..5 messages + closing tick) of insert (0..12 rows, 1..3 columns of int64/varchar/float/bool/float-vector/binary-vector/json), delete (int or string PKs), "
                "drop-collection, drop-partition, import, tick with self-consistent timestamps; 1..4 concurrent HandleReplicateMessage calls on different channels; replicate id on/off; 5 name-mapping shapes; "
                "downstream answering ok / error / undecodable position. Oracle: every serialized message decoded the way the Milvus proxy does (MsgHeader -> type -> ProtoUDFactory dispatcher) is proto.Equal "
                "to the handed message (same index, same type), replicate marking and tick conversion, call-level fields, returned checkpoint, error propagation. "
                "non-trivial = pack set with >= 2 non-tick message types and >= 1 row; distinct = distinct message contents",
        "assumptions": ["names inside messages are normalised on both sides here; they are decided by C09 (TestC09_DML)"],
    },
    "C08": {
        "pkg": "hwriter", "test": "TestC08", "replay_test": "TestC08_Replay", "level": "exploration",
        "quick": T(16, 1500, fixed=["TestC08_Table"]), "thorough": T(16, 100000, fixed=["TestC08_Table"], timeout=5000),
        "rule": "part 1 (exhaustive): decision function over all triples of 11 magnitudes x 4 presence combinations against a table derived from the statement. "
                "part 2 (rapid): source timelines over 2 databases x 2 collections x 1 partition (create/op/drop/re-create, 6 collection op kinds, 2 partition op kinds, db create/drop); "
                "API-event stream and op stream keep their own order and are merged arbitrarily; the run ends at the first not-ready error (the task would pause); then restart with the drop-horizon table "
                "and replay of a suffix of the op stream. Oracle: op of an incarnation known dropped -> nil and no mutating call; op never applied to a newer incarnation; op of the current incarnation -> exactly one call. "
                "non-trivial (timeline part) = at least one must-skip obligation and a re-created name or a replay; distinct = distinct delivery history",
        "assumptions": ["the fake downstream answers not-found for missing objects and ignores a create for an existing name, like MilvusDataHandler",
                        "replay after a database drop is not generated (C15 only lists databases still present downstream)"],
    },
    "C09": {
        "pkg": "hwriter", "test": "TestC09(_DML|_Bookkeeping|_MappingUpdate)?", "ntests": 4, "level": "exploration",
        "quick": T(16, 700), "thorough": T(16, 25000, timeout=5000),
        "rule": "life of a shared writer (TestC09_MappingUpdate): operations before and after UpdateNameMappings (a later task registers more entries) are each addressed by the table as it is at that moment. bookkeeping clause (TestC09_Bookkeeping): after a replicated drop-collection event at source time T an older operation on the same source names must be skipped and an operation on an unrelated source collection called like the mapped name must be executed. rapid over the product {18 op-message kinds, 4 API events (TestC09), 5 DML message kinds (TestC09_DML), readiness probes} x source db {'', default, db1} x mapping shape "
                "{none, exact, whole-db, unrelated, exact+whole-db for the same db} x downstream ok/failing; expected names from a 6-line reference mapping; routing db (ReplicateParam.Database), "
                "request name fields and names inside serialized DML are compared. non-trivial = the mapping changes the database and the operation is collection-scoped; distinct = distinct (kind, names, mapping, contents)",
        "assumptions": ["database-level operations on a database that only occurs in collection-level entries may or may not follow them (statement is silent): both accepted",
                        "RBAC requests are global objects: no database/collection expectation"],
    },
    "C20": {
        "pkg": "hwriter", "test": "TestC20(_Malformed)?", "ntests": 2, "replay_test": "TestC20_Replay", "level": "exploration",
        "quick": T(16, 0, tests=[{"test": "TestC20(_Malformed)?", "checks": 700, "n": 2}, {"test": "TestC20_RealHandler", "checks": 150, "pkg": "hserver", "shards": 4}]),
        "thorough": T(16, 0, timeout=5000, tests=[{"test": "TestC20(_Malformed)?", "checks": 50000, "n": 2}, {"test": "TestC20_RealHandler", "checks": 4000, "pkg": "hserver", "shards": 8}]),
        "rule": "TestC20_RealHandler (below the DataHandler seam): generated parameters of 13 operation kinds (grant / revoke with their database, user-role, role, user, load / release / create / drop partition, release collection, drop database) are handed to the REAL MilvusDataHandler + SDK client and the gRPC request arriving at the fake downstream is compared with them, including the database the call is routed to. rapid over 18 op kinds and 4 API events with arbitrary identifiers, index params, partition lists with members recorded as dropped, replica numbers, resource groups, user/role/privilege tuples, "
                "valid/invalid password encodings, schemas with 1..5 user fields (+dynamic field), shard number, consistency level, properties; plus malformed packs. Oracle: exactly one downstream request of the "
                "corresponding kind, deep comparison with the source (names excluded: C09), replication stamp = pack end-position time / event time, dropped partitions removed in order, malformed pack -> error and zero calls. "
                "non-trivial = operation with list-valued or nested fields; distinct = distinct contents",
        "assumptions": ["fields the property does not list (database properties on create-database, resource groups / load fields of load-partitions) are not compared"],
    },
    "C01": {
        "pkg": "hreader", "test": "TestC01", "level": "exploration",
        "quick": T(16, 0, timeout=900, fixed=["TestC01_LateConsumer"], tests=[{"test": "TestC01", "checks": 50}, {"test": "TestC01_Repeat", "checks": 20}, {"test": "TestC01_Drop", "checks": 25}]),
        "thorough": T(16, 0, timeout=7000, fixed=["TestC01_LateConsumer"], tests=[{"test": "TestC01", "checks": 1500}, {"test": "TestC01_Repeat", "checks": 600}, {"test": "TestC01_Drop", "checks": 800}]),
        "rule": "TestC01_Drop: a multi-shard collection whose stream contains a drop-partition message (same time on every shard), shards read with a drawn skew; inserts and deletes of the partition occur only before the drop of their own shard and must all be handed over, also on a lagging shard after another shard passed the drop. rapid-generated catalogs (1..3 pchannels per side, 1..3 collections x 1..2 shards on shared pchannels, default + named partition, default/named database, 40% skewed downstream placement, "
                "3% late partition ids, 3% collections created downstream only by the create event), per-shard scripts of 1..7 packs (BeginTs=0 first packs, 0..3 messages of insert/delete/tick/create*/unsupported, "
                "equal-timestamp groups, clock skew 0..120 s, message positions nil/pchannel/vchannel) and a drawn interleaving of StartReadCollection/AddPartition/feed actions against the real replicateChannelManager; "
                "after quiescence (goroutine-dump based) a two-sided oracle: no invention, no duplicate, completeness, source-time order (deletes first on ties), payload proto.Equal modulo the rewritable fields, per-stream pack order "
                "and attribution (collection, source channel, task). TestC01_Repeat adds repeated notifications of a collection to the action sequence (a second StartReadCollection concurrently with the first, or again between two packs): "
                "both must succeed, no source shard may be subscribed twice, and the same two-sided oracle applies. non-trivial = >= 2 streams share a downstream channel with >= 2 data packs, or a registration interleaved after the first feed; distinct = distinct catalog+scripts+action history",
        "assumptions": ["go-deadlock detector disabled in the harness (pinned goid returns a constant under Go 1.23: toolchain artefact)",
                        "streams that never get a handler (waiting for a free downstream channel) are not fed",
                        "known finding F-C01-forward-overtake: for streams recognised as forwarded the relative order of tick-only vs data packs is not compared (counted)"],
    },
    "C02": {
        "pkg": "hreader", "test": "TestC02", "level": "exploration",
        "quick": T(16, 0, timeout=900, tests=[{"test": "TestC02", "checks": 50}, {"test": "TestC02_SameName", "checks": 25}]),
        "thorough": T(16, 0, timeout=7000, tests=[{"test": "TestC02", "checks": 1500}, {"test": "TestC02_SameName", "checks": 700}]),
        "rule": "TestC02_SameName: the same over catalogs whose collections all have one name (one per database) with frequent late partition ids. same generator as C01; oracle per emitted insert/delete/drop message: downstream collection id of the same-named collection, downstream partition id of the same-named partition, shard name among the collection's "
                "downstream vchannels with a bijective source->downstream shard relation, delivered on the output stream of the pchannel hosting that vchannel, pack positions name that pchannel, message positions name it or its vchannel and keep the source message id. "
                "non-trivial = skewed placement, shared downstream channel, or late partition id; distinct = distinct catalog+scripts",
        "assumptions": ["go-deadlock detector disabled in the harness (toolchain artefact)", "cases in which no handler can own the target channel end in a ReplicateError event and are accepted"],
    },
    "C03": {
        "pkg": "hreader", "test": "TestC03", "level": "exploration",
        "quick": T(16, 0, timeout=900, tests=[{"test": "TestC03", "checks": 60}, {"test": "TestC03_Resume", "checks": 40}, {"test": "TestC03_SharedPositions", "checks": 30, "shards": 8}]),
        "thorough": T(16, 0, timeout=7000, tests=[{"test": "TestC03", "checks": 2000}, {"test": "TestC03_Resume", "checks": 1500}, {"test": "TestC03_SharedPositions", "checks": 1500}]),
        "rule": "TestC03_SharedPositions: 2..3 collections on one source channel receive twin packs that share their position objects (as the pinned msgdispatcher hands them out); full C03 oracle on the output. TestC03_Resume: phase 1 emits a prefix of 2..3 skewed streams sharing the channel; checkpoints are taken from the last emitted pack of every stream as the server persists them; the manager is closed (pause of the target or process restart with a fresh ts manager) and a new one resumes a drawn subset in a drawn order; oracle: channel time never goes back across the resume + the full oracle on phase 2. "
                "TestC03: 2..4 source streams (clock skew 0 ms .. 10 min, nil/pchannel positions, 1..5 packs of 0..3 insert/delete messages, BeginTs=0 first packs, tick-only packs, equal-timestamp groups) multiplexed onto one downstream channel; "
                "75% of the cases run under a drawn schedule: the verif yield hook parks a stream goroutine between 'pack computed' and 'pack enqueued' and the schedule decides which parked pack is released next while other streams are fed; "
                "oracle on the sequence read from GetMsgChan: every pack ends with a tick, closing ticks never decrease, every message is later than all earlier closing ticks and not later than its own, begin/end/message/row/position times of data packs agree, "
                "source order (<,=,>) of messages of one shard is mirrored. non-trivial = a pack was fed while another stream's pack sat in the computed-not-enqueued window (or releases were reordered) and >= 2 data packs; distinct = distinct scripts+schedule",
        "assumptions": ["TestC03_Resume restates the derivation of seek time / channel start time from a checkpoint (cdc_impl.go startInternal) in the harness; the real derivation runs in the C05 simulator",
                        "known finding F-C03-resume-order: while listed, the stream whose checkpoint establishes the latest channel time is resumed first and cases in which no checkpoint reaches the emitted channel time are skipped (both counted)", "go-deadlock detector disabled in the harness (toolchain artefact)"],
    },
    "C04": {
        "pkg": "hreader", "test": "TestC04", "level": "exploration",
        "quick": T(16, 0, timeout=900, tests=[{"test": "TestC04", "checks": 25}, {"test": "TestC04_PendingEvent", "checks": 6, "shards": 4}, {"test": "TestC04_Lifecycle", "checks": 20, "shards": 8}]),
        "thorough": T(16, 0, timeout=7000, tests=[{"test": "TestC04", "checks": 800}, {"test": "TestC04_PendingEvent", "checks": 60, "shards": 4}, {"test": "TestC04_Lifecycle", "checks": 600, "shards": 16}]),
        "rule": "TestC04_Lifecycle: a repeated notification overlapping the first one and / or a stop followed by a new start on the same channel manager (partition registered again), then every shard delivers the drop: exactly one drop request, no error event. TestC04_PendingEvent: the consumer of the API events is held, ten create-partition events fill the event channel, every shard delivers the drop, the collection is stopped, the consumer is released: no drop request may come out. TestC04: scenarios {live drop-collection, live drop-partition, collection dropped while CDC was down (Dropped/Dropping state, checkpoint time != 0), partition dropped while down} x 1..3 shards on distinct pchannels x database default/named, "
                "a second collection sharing the first pchannel, per-shard scripts (0..2 data packs, the drop message alone or behind data in its pack, trailing data after a partition drop), AddPartition before or after the shard streams are registered, "
                "drawn feed interleaving, StopReadCollection at a drawn point in 25% of the live cases. Oracle on GetEventChan: at most one drop request per object, exactly one iff every shard delivered the drop (and no stop), never before the last shard's "
                "drop was handed over (logical clock), right database/collection/partition names, task attribution, a stop never yields a drop, exactly one after restart for objects dropped while down. "
                "non-trivial = >= 2 shards and (a drop request was issued or the collection was stopped); distinct = distinct scenario+scripts+actions",
        "assumptions": ["known finding F-C04-partition-barrier-undersized: timing checks are not applied to drop-partition cases in which AddPartition ran before the streams were registered (counted)",
                        "a pack in flight while the collection is stopped may raise an error event; that is not a drop request"],
    },
    "C12": {
        "pkg": "hstore", "test": "TestC12_(Etcd|MySQL)", "level": "exploration",
        "quick": T(8, 0, tests=[{"test": "TestC12_Etcd", "checks": 120}, {"test": "TestC12_MySQL", "checks": 1500}], timeout=900),
        "thorough": T(8, 0, tests=[{"test": "TestC12_Etcd", "checks": 4000}, {"test": "TestC12_MySQL", "checks": 60000}], timeout=7000),
        "rule": "both backends behind api.MetaStoreFactory (real EtcdMetaStore on an embedded etcd server; real MySQL store SQL on an in-memory engine with MySQL LIKE/upsert/transaction semantics); 2..3 factories with root paths "
                "from {cdc, cdc2, cdc_, cd%, cdc/sub}; task ids {t, t1, t10, t_, t%}, collection ids {1, 10, 100, -1, -10}, channels {c, c1}; rapid histories of 1..14 operations: put/get/list task, UpdateTaskState, "
                "UpdateTaskCollectionPosition (one channel, optional op/target position), UpdateDropStateTaskCollectionPosition, get/delete positions, DeleteTask with a failure injected at the k-th store call (incl. commit), "
                "replicate-store put / prefix get / remove. After EVERY operation the full dump of the backend (etcd range read / all SQL rows) must equal a map model keyed (root, kind, task, collection). "
                "non-trivial = history touches two ids or roots in prefix/pattern relation and has >= 3 operations; distinct = distinct (backend, roots, history)",
        "assumptions": ["SQL engine compares strings byte-wise; identifiers differing only in case or trailing blanks are not generated (collation of a real server is out of scope)",
                        "identifiers containing '/' are not generated for task ids / channels (outside the stated domain)"],
    },
    "C13": {
        "pkg": "hcatalog", "test": "TestC13", "level": "exploration",
        "quick": T(16, 20, timeout=1200), "thorough": T(16, 600, timeout=7000),
        "rule": "generated source-catalog histories in a real embedded etcd (2 databases x names c1/c2: create via Creating->Created or Creating->tombstone, drop via Dropping[->Dropped[->tombstone]], re-create with a new id, "
                "partitions p1/p2 create/drop, rewrite of a live record = repeated notification) split by drawn cut points over the reader's steps {before start, after the watches are opened, after the collection listing, "
                "after the partition listing, after StartWatch} through a decorating MetaOp; real EtcdOp + real CollectionReader + real replicateChannelManager (fake dispatcher/downstream); task selects * or default.c1. "
                "Oracle at quiescence (sentinel objects + goroutine dump): every selected collection that is Created at the end was started exactly once (one Register of its vchannel), no collection started twice, unselected / "
                "creating->dropped ones never, every live non-default partition of a started collection produced exactly one create-partition request, no error on ErrorChan, no error event. "
                "non-trivial = at least one catalog write lands between opening the watch and StartWatch and >= 1 collection must start; distinct = distinct (selection, phased history)",
        "assumptions": ["downstream collections exist (synthesised by the fake target), downstream lacks the named partitions", "retry budget 3 x 1 s", "go-deadlock detector disabled (toolchain artefact)"],
    },
    "C15": {
        "pkg": "hcatalog", "test": "TestC15", "level": "exploration",
        "quick": T(8, 0, timeout=900, tests=[{"test": "TestC15", "checks": 150}, {"test": "TestC15_MovingSource", "checks": 100}]),
        "thorough": T(16, 0, timeout=7000, tests=[{"test": "TestC15", "checks": 15000}, {"test": "TestC15_MovingSource", "checks": 8000}]),
        "rule": "generated catalogs in a real embedded etcd: default + 0..2 named databases (at most one tombstoned, only with a milvus target), per (database, name in {c1,c2}) 0..2 dropped incarnations (Dropped / Dropping / tombstone) "
                "followed by an optional live one (Created, or Creating in 1/6), partitions _default + p1/p2 with 0..2 dropped incarnations and an optional live one, increasing create times, TSO value, target nil or fake "
                "(answers the downstream database of collections whose source database is gone, or not-found). Oracle: GetAllDroppedObj() compared as maps with a reference written from the statement (keys via util.Get*InfoKeys on the object's "
                "own database; horizon create(live namesake)-1 or now-1; entries exactly for names with a dropped incarnation). non-trivial = a name with both a dropped and a live incarnation, or the same collection name in >= 2 databases; distinct = distinct catalog",
        "assumptions": ["a namesake in Creating state is accepted as live (create-1) or absent (now-1)", "tombstoned records carry no name and are invisible"],
    },
    "C10": {
        "pkg": "hserver", "test": "TestC10", "level": "exploration",
        "quick": T(16, 100, timeout=900, fixed=["TestC10_UserRoleFlagRace", "TestC10_ExcludedByAnotherWildcard"]), "thorough": T(16, 1000, timeout=7000, fixed=["TestC10_UserRoleFlagRace", "TestC10_ExcludedByAnotherWildcard"]),
        "rule": "regressions: TestC10_UserRoleFlagRace (deterministic schedule of two overlapping create requests), TestC10_ExcludedByAnotherWildcard (the sequential history behind fix 2). rapid state machine over the REAL HTTP handler + MetaCDC (real etcd meta store, fake downstream Milvus gRPC servers, 2 targets, task limit 4): create with specification db in {default (implicit or explicit), db1, db2, *} x collection in {c1, c2, *}, "
                "optional name mapping (valid or not covered by the specification), enable_user_role, create with one transient store failure injected at a drawn store call (task list read, task record write, state update, checkpoint read = a failed create after the bookkeeping was updated), delete, restart (new incarnation + ReloadTask). "
                "After every step: per target every (database, collection) of a 4x3 universe is selected by at most one task on the data path (GetShouldReadFunc) and on the DDL path (GetCollectionInfos+MatchCollection), both paths agree, a new task selects everything of its specification no other task names and nothing another task selects, "
                "selections never change afterwards, rejected creates leave bookkeeping (and, without injected fault, the store) unchanged, and the duplicate bookkeeping equals a reference computed from the persisted tasks. "
                "non-trivial = a create was accepted although its specification overlaps what another task of the target replicates (exclusion path); distinct = distinct history",
        "assumptions": ["collectionNames.nameMapping is write-only in the code (no reader) and not compared",
                        "names another task owns nominally through a wildcard but has itself excluded may or may not be selected by a new task (statement silent); the observed choice must stay constant",
                        "with an injected store failure the store content is not required to be unchanged (records written before the failure); the task list is"],
    },
    "C19": {
        "pkg": "hserver", "test": "TestC19", "replay_test": "TestC19_Corpus", "level": "exploration",
        "quick": T(16, 40, timeout=900),
        "thorough": T(16, 1500, timeout=7000, fuzz=[{"target": "FuzzC19", "time": "600s", "timeout": 1200}]),
        "rule": "REAL HTTP handler + MetaCDC (real etcd meta store, fake downstream). (ii) rapid state machine: create requests assembled from valid parts and a labelled set of planted invalidities the statement lists "
                "(no/both targets, host empty, port <= 0, negative timeout / buffer period / buffer size, user without password, empty / dotted / over-long collection or database names, undecodable / non-proto / non-vchannel positions, "
                "positions of two collections, positions with '*', second position undecodable, foreign rpc channel, undecodable rpc position, zero / two collection infos, both forms, two databases, dotted mapping names), "
                "adversarial but allowed names (wildcards inside, '/', unicode, blanks, maximum length), wrong JSON types, other request types with known / unknown / odd task ids, maintenance operations, non-POST methods; "
                "on an empty server and after accepted creates (task limit 5). (i) byte level: documented requests, truncations, bit flips, deep nesting, huge numbers, saved fuzz findings (quick) and native go fuzzing (thorough). "
                "Oracle: no panic escapes ServeHTTP, body = exactly one JSON object with code 200/400/500 (405 for non-POST), planted invalidity => non-200, and for every non-200 answer (list response, full meta-store dump, duplicate bookkeeping) identical before and after. "
                "non-trivial = at least one create request passed JSON decoding and reached validation (valid, or rejected with a client error); distinct = distinct request/answer history",
        "assumptions": ["requests the statement does not list as invalid (odd but legal names, unknown task ids for position/list, maintenance operations) may be answered with any of the three codes",
                        "maintenance.InitMsgLog() is called once per process as CDCServer.Run does"],
    },
    "C18": {
        "pkg": "hserver", "test": "TestC18", "level": "exploration",
        "quick": T(16, 6, timeout=900), "thorough": T(16, 150, timeout=7000),
        "rule": "REAL HTTP handler + MetaCDC at log level debug; everything the service logs (core/log -> stdout/stderr of the process, re-pointed to a capture file) and every HTTP answer is searched for the secrets. "
                "rapid state machine: create with credentials in every shape (Milvus username+password, token, both; Kafka SASL username+password), each secret a unique canary; outcomes success, rejected by validation after decoding, "
                "duplicate, unreachable target, transient store failure at a drawn call of create/start; then get / list / position / pause / resume (with transient store failure) / delete / restart with reload (clean, store failure during start, downstream failing). "
                "Oracle: no canary (raw or base64) in any response body or in anything logged since the previous step. non-trivial = a failure path was taken after secrets had been accepted; distinct = distinct history",
        "assumptions": ["the Milvus user name is not treated as a secret (the statement lists passwords, tokens and SASL secrets)",
                        "a secret supplied with a wrong JSON type (decode error text) is not generated",
                        "log lines written by goroutines after the case ended are attributed to no case (canaries are unique per case)"],
    },
    "C11": {
        "pkg": "hserver", "test": "TestC11", "level": "exploration",
        "quick": T(16, 5, timeout=1500), "thorough": T(16, 60, timeout=14000),
        "rule": "rapid state machine over the REAL HTTP handler + MetaCDC with live replication (real etcd catalog and meta store, fake MQ under the real msgstream / msgdispatcher, 2 fake downstream Milvus servers, 3 source collections sharing one physical channel): "
                "create (disable_auto_start drawn), pause / resume / delete with a transient store failure injected at a drawn store call (task record read / write / delete, checkpoint delete, transaction open / commit), requests for unknown and deleted ids, position, "
                "restart (incarnation killed: streams and store fenced; gauges and ts manager reset; ReloadTask); a row is produced for every task after every step. Oracle after every step: only legal transitions succeed; API get, persisted record, in-memory table and "
                "per-state gauge sets equal the model for every task; deleted tasks leave no record of any kind; per target refCnt = number of running tasks, reader registrations = running tasks, entity absent when none runs; data produced for a paused / deleted task never "
                "reaches its target; rows of running tasks arrive (stall = violation only when the service is at rest, rows were produced again after the streams opened, and no simulated restart preceded); when nothing runs every stream registered at the dispatcher has been "
                "deregistered and no service goroutine spins; after a restart checkpoint records are kept and tasks run or stay paused according to disable_auto_start. non-trivial = a pause/resume happened and a store failure fired or a restart happened; distinct = distinct history",
        "assumptions": ["restart is simulated inside the test process (previous incarnation fenced, process-wide singletons reset through verif hooks); a stall after such a restart is counted, not judged",
                        "open MQ consumers are not the criterion for 'no active readers': the pinned msgdispatcher library keeps the consumer of a main dispatcher whose last target left while a solo dispatcher existed; register/deregister balance (from the dispatcher's log lines) is",
                        "a goroutine sleeping in a 1 s poll is counted, only a running/runnable one is 'busy background work'",
                        "store failures are single transient faults; checkpoint reads/writes used by the replication loops are not injected here"],
    },
    "C06": {
        "pkg": "hserver", "test": "TestC06", "level": "exploration",
        "quick": T(16, 5, timeout=1500), "thorough": T(16, 120, timeout=14000),
        "rule": "full in-process service (real MetaCDC, reader, writer, SDK; real etcd; fake MQ and downstream) with two tasks A and B replicating one collection each, on the same target (shared physical channels, batch size 1..3) or on different targets; "
                "after 1..4 acknowledged packs a fault hits A at a drawn position: downstream rejects A's write (once or persistently), the store rejects A's checkpoint (once or persistently), or A's rows address a partition unknown to source catalog and downstream; rows keep being produced for both. "
                "Oracle once the service is at rest: process alive; A Paused with a non-empty reason in get and list (or, for a transient write fault, the retried pack got through and nothing is missing); nothing of A accepted after the failing pack; A's checkpoint names no message at or beyond the first unacknowledged row; "
                "B Running with empty reason and all rows of B produced after the fault arrive; after the fault is cleared and A resumed every row of the failing packs arrives (never silently skipped). "
                "non-trivial = the fault hit after at least two acknowledged packs, or both tasks share a target; distinct = distinct scenario parameters",
        "assumptions": ["a store that also rejects the state update of the automatic pause (double fault) is not generated",
                        "verdicts about missing rows are only taken when the service is at rest (goroutine states); otherwise the case is counted as inconclusive",
                        "failing DDL events and unknown collections are covered at reader / writer level (C01, C08), not here"],
    },
    "C05": {
        "pkg": "hserver", "test": "TestC05", "level": "exploration",
        "quick": T(16, 0, timeout=1500, tests=[{"test": "TestC05", "checks": 5}, {"test": "TestC05_Drop", "checks": 2}]),
        "thorough": T(16, 0, timeout=14000, tests=[{"test": "TestC05", "checks": 150}, {"test": "TestC05_Drop", "checks": 40}]),
        "rule": "TestC05_Drop (frozen clause): one task replicates ca and cb, cb is dropped upstream (catalog state and drop message), after the drop has been replayed downstream the checkpoint record of cb must be marked dropped and stay byte-identical under further traffic, pause/resume or restart (store monitor at every write + end comparison), and the drop is requested exactly once. TestC05: full in-process service (real MetaCDC, reader, batcher, writer, SDK, meta store on a real etcd; fake MQ under the real msgstream / dispatcher; fake downstream that remembers what it accepted): collections ca (2 shards) and cb (1 shard) share source and target channels, one task for both or one each, batch size 1..4; "
                "a generated script of 4..14 steps mixes row production on drawn streams (drawn tick cadence) with faults: downstream rejects the next data write, store rejects the next checkpoint write, pause/resume of a drawn task, and crashes - the incarnation is killed (store and streams fenced) inside the next data write before it takes effect, "
                "right after it took effect (acknowledged but not checkpointed) or right after the next checkpoint write - each followed later by a restart (ReloadTask from the persisted state). "
                "Monitor (a): at every checkpoint write, seen in the store decorator before it is applied, every counted row of that collection and channel with message index <= the checkpoint's index has already been accepted downstream. "
                "Oracle (b): with all faults cleared, tasks resumed and the last incarnation at rest, every row produced since the streams were flowing has been accepted at least once. "
                "non-trivial = at least one crash, fault or pause happened and rows were produced; distinct = distinct (batch size, task layout, script)",
        "assumptions": ["crash = death of the incarnation simulated in-process (its store and MQ consumers are fenced, process-wide singletons reset through verif hooks); crash points are the externally visible steps named above",
                        "rows produced before a stream without checkpoint was opened (opened at the latest position) are not counted",
                        "frozen checkpoints of dropped collections are covered by the store-level check C12 (dropped entries never change), not here"],
    },
}
