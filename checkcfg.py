"""Per-property configuration of the driver (./check)."""

def T(shards, checks, **kw):
    d = {"shards": shards, "checks": checks}
    d.update(kw)
    return d

PROPS = {
    "C14": {
        "pkg": "hpure", "test": "TestC14", "replay_test": "TestC14_Replay", "level": "exploration",
        "quick": T(16, 1500), "thorough": T(16, 40000, timeout=3000),
        "rule": "rapid-generated histories of Receive/ClearMsgs/sleep over 1..3 Packers sharing the global memory budget, thresholds "
                "(count 1..6, size 1/2/512 KB, age 1 ms/off, memory 1..64 KB) and message sizes drawn around them, callback failing at drawn flushes; "
                "oracle = per-packer pending-list model (exactly-once, in order, error propagated, forced flush on deterministic thresholds, counter zero when empty). "
                "non-trivial = at least 2 flushes caused by at least 2 different triggers (count/size/age/memory/shutdown); distinct = distinct operation history",
        "assumptions": ["the age trigger depends on the wall clock; the oracle accepts a flush without deterministic trigger only when the age threshold is 1 ms",
                        "the global memory limit is reset between cases through the verif hook ResetMemoryForVerif"],
    },
    "C16": {
        "pkg": "hpure", "test": "TestC16", "replay_test": "TestC16_Replay", "level": "exploration",
        "quick": T(8, 3000, fixed=["TestC16_Exhaustive"]), "thorough": T(16, 60000, fixed=["TestC16_Exhaustive"], timeout=3000),
        "rule": "layer 1: real util.ChannelMapping driven by the manager's direct-assignment protocol over counts 0..6 x 0..6 and random offer sequences (rapid), "
                "plus exhaustive enumeration of all offer sequences of length 5 (quick) / 6 (thorough) for counts 1..3 x 1..3; oracle on public queries: function, stability, "
                "quota ceil(larger/smaller) (1-to-1 for equal counts), assignment iff quota free. non-trivial = at least one offer refused by the quota after >= 2 assignments; distinct = distinct (counts, offer sequence)",
        "assumptions": ["the wait/forward part of the protocol is in the manager, not in ChannelMapping; it is exercised by the reader harness"],
    },
    "C17": {
        "pkg": "hpure", "test": "TestC17", "replay_test": "TestC17_Replay", "level": "exploration",
        "quick": T(16, 1500), "thorough": T(16, 40000, timeout=3000),
        "rule": "rapid state machine over the real ReplicateMeteImpl with a JSON-round-tripping in-memory store: report(task,msg,1..2 shards) / remove / reload over 3 tasks (ids in prefix relation) x 1..3 messages "
                "(collection and partition kind, 1..4 target shards); oracle after every step: store == memory == model (union of reports), ready iff union == target. "
                "non-trivial = some message received >= 3 reports, or a reload happened while a message was partially reported; distinct = distinct history",
        "assumptions": ["callers always pass the same TargetChannels for a message and report shards from that set (what replicate_channel_manager does)"],
    },
}
