#!/bin/bash
# usage: seed_batch.sh confirm|eval <tier> P/V [P/V ...]   (results appended to /tmp/seed-results/<mode>.log)
MODE=$1; TIER=$2; shift 2
mkdir -p /tmp/seed-results
for PV in "$@"; do
  P=${PV%/*}; V=${PV#*/}
  SD=/tmp/seed-out/$P/$V
  [ -f $SD/meta.json ] || { echo "SKIP $PV no meta" >> /tmp/seed-results/$MODE.log; continue; }
  if [ $MODE = confirm ]; then
    MOD=$(python3 -c "import json;print(json.load(open('$SD/meta.json'))['module'])")
    PKG=$(python3 -c "import json;print(json.load(open('$SD/meta.json'))['pkg'])")
    RX=$(python3 -c "import json;print(json.load(open('$SD/meta.json'))['run_regex'])")
    case "$PKG" in ./*) ;; *) PKG=./$PKG;; esac
    case "$PKG" in */) ;; *) PKG=$PKG/;; esac
    /verif/tools/seed_confirm.sh $P $V $MOD $PKG "$RX" >> /tmp/seed-results/confirm.log 2>&1
  else
    WT=/tmp/ev-$P
    [ -d $WT ] || git -C /repo worktree add --detach $WT HEAD >/dev/null 2>&1
    /verif/tools/seed_eval.sh $WT $SD/patch.diff $TIER $P >> /tmp/seed-results/eval-$TIER.log 2>&1
  fi
done
echo "BATCH-DONE $MODE $TIER $*" >> /tmp/seed-results/$MODE.log
