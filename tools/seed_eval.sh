#!/bin/bash
# usage: seed_eval.sh <worktree> <patch.diff> <tier> <PROP> [PROP...]
# Applies a seeded change in a scratch worktree of /repo, runs the checks against that worktree (VERIF_REPO), restores the worktree.
# Evidence written by these runs is discarded (evidence must come from runs against /repo itself).
set -u
WT=$1; PATCH=$2; TIER=$3; shift 3
cd $WT || exit 2
git checkout -q -- . ; git clean -fdq -- core server >/dev/null 2>&1
git apply "$PATCH" || { echo "EVAL patch-does-not-apply"; exit 1; }
for P in "$@"; do
  OUT=$(cd /verif && VERIF_REPO=$WT VERIF_OUT=/tmp/verif-eval/$(basename $WT) ./check $P --tier $TIER 2>&1)
  RC=$?
  echo "EVAL $PATCH check=$P tier=$TIER rc=$RC $(echo "$OUT" | grep -E "^VIOLATION|^$P $TIER" | tr '\n' ' ' | cut -c1-300)"
  if [ $RC -ne 0 ]; then echo "$OUT" | grep -E "rapid\] failed|VERIF-" | head -4 | cut -c1-500; fi
done
git checkout -q -- . ; git clean -fdq -- core server >/dev/null 2>&1
