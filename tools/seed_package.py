#!/usr/bin/env python3
"""Assembles /verif/seeded/<PROP>-<variant>/ (patch.diff, demo/, meta.json) from the sub-agents' deliverables under /tmp/seed-out
and the confirmation / evaluation logs under /tmp/seed-results. meta.json = the author's description + what was confirmed here +
which check detects the change."""
import json, os, re, shutil, sys, glob

OUT = "/verif/seeded"
confirm = {}
for l in open("/tmp/seed-results/confirm.log"):
    m = re.match(r"RESULT (C\d+)/(\w) build_rc=(\d+) demo_clean_rc=(\d+) demo_mut_rc=(\d+) SUITE missing=(\d+)", l)
    if m:
        confirm[(m.group(1), m.group(2))] = dict(build_rc=int(m.group(3)), demo_on_clean_tree_rc=int(m.group(4)), demo_with_change_rc=int(m.group(5)), baseline_tests_missing_with_change=int(m.group(6)))
evals = {}
for f in ("/tmp/seed-results/matrix.log", "/tmp/seed-results/matrix-final23.log"):
    if not os.path.exists(f):
        continue
    for l in open(f):
        m = re.match(r"EVAL /tmp/seed-out/(C\d+)/(\w)/patch.diff check=(C\d+) tier=(\w+) rc=(\d+) (.*)", l)
        if m:
            w = re.search(r"wall=([\d.]+)s", m.group(6))
            evals.setdefault((m.group(1), m.group(2)), []).append(dict(check=m.group(3), tier=m.group(4), exit=int(m.group(5)), detected=m.group(5) == "1", wall_s=float(w.group(1)) if w else None))
notes = json.load(open("/verif/tools/seed_notes.json")) if os.path.exists("/verif/tools/seed_notes.json") else {}
rows = []
for d in sorted(glob.glob("/tmp/seed-out/C*/[abcd]")):
    p, v = d.split("/")[-2:]
    mf = os.path.join(d, "meta.json")
    if not os.path.exists(mf) or (p, v) not in confirm:
        continue
    c = confirm[(p, v)]
    ok = c["build_rc"] == 0 and c["demo_on_clean_tree_rc"] == 0 and c["demo_with_change_rc"] != 0 and c["baseline_tests_missing_with_change"] == 0
    if not ok:
        print("NOT CONFIRMED", p, v, c)
        continue
    dst = os.path.join(OUT, f"{p}-{v}")
    shutil.rmtree(dst, ignore_errors=True)
    os.makedirs(os.path.join(dst, "demo"))
    shutil.copy(os.path.join(d, "patch.diff"), dst)
    for t in glob.glob(os.path.join(d, "demo", "*_test.go")):
        shutil.copy(t, os.path.join(dst, "demo"))
    a = json.load(open(mf))
    ev = evals.get((p, v), [])
    meta = {
        "property": p, "variant": v,
        "summary": a.get("summary"), "needs_to_manifest": a.get("needs_to_manifest"),
        "files_changed": a.get("files_changed"),
        "demonstration": {"module": a.get("module"), "package_dir": a.get("pkg"), "run_regex": a.get("run_regex")},
        "origin": "written by an independent sub-agent that saw only the text of the property and a scratch worktree of /repo (nothing from /verif)",
        "confirmed_here": dict(c, how="tools/seed_confirm.sh in a scratch worktree: go build of core and server; demonstration on the clean tree and with the change; the module suites with the change compared with BASELINE stable_pass"),
        "evaluation": ev,
        "detected_by": sorted({e["check"] for e in ev if e["detected"]}),
        "note": notes.get(f"{p}-{v}", ""),
    }
    json.dump(meta, open(os.path.join(dst, "meta.json"), "w"), indent=1)
    rows.append((p, v, meta["detected_by"], meta["note"]))
for r in rows:
    print(r[0], r[1], r[2], r[3][:80])
