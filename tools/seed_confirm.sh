#!/bin/bash
# usage: seed_confirm.sh <PROP> <VARIANT> <module: core|server> <pkg e.g. ./writer/> <run-regex> [more demo dest dir relative to repo; default = module/pkg]
# Confirms a seeded change in the scratch worktree /tmp/wt-<PROP>: builds, demo fails with the change and passes without,
# the module's existing tests (those of the stable baseline) still pass with the change. Prints compact result lines.
set -u
export GOFLAGS=-mod=mod GOPROXY=off GOSUMDB=off GOTOOLCHAIN=local
P=$1; V=$2; MOD=$3; PKG=$4; RX=$5
WT=${WT:-/tmp/wt-$P}; SD=/tmp/seed-out/$P/$V
DEST=${6:-$MOD/${PKG#./}}
cd $WT || exit 2
git checkout -q -- . ; git clean -fdq -- core server >/dev/null 2>&1
cp $SD/demo/*_test.go $WT/$DEST/ 2>/dev/null
# without change
(cd $WT/$MOD && go test -vet=off -count=1 -run "$RX" $PKG > /tmp/seedc-$P-$V-clean.log 2>&1); RC_CLEAN=$?
git apply $SD/patch.diff || { echo "RESULT $P/$V patch-does-not-apply"; exit 1; }
(cd $WT/core && go build ./... ) && (cd $WT/server && go build ./...) ; RC_BUILD=$?
(cd $WT/$MOD && go test -vet=off -count=1 -run "$RX" $PKG > /tmp/seedc-$P-$V-mut.log 2>&1); RC_MUT=$?
# existing tests with the change (demo removed)
rm -f $WT/$DEST/seed_*_test.go
for f in $SD/demo/*_test.go; do rm -f $WT/$DEST/$(basename $f); done
if grep -q '^diff --git a/core/' $SD/patch.diff; then export SEED_TOUCHES_CORE=1; else export SEED_TOUCHES_CORE=0; fi
flock /tmp/seed-suite.lock python3 - "$WT" > /tmp/seedc-$P-$V-suite.log 2>&1 <<'PY'
import json,subprocess,sys,os
wt=sys.argv[1]
passed=set()
mods=('core','server') if os.environ.get('SEED_TOUCHES_CORE')=='1' else ('server',)
for m in mods:
    p=subprocess.run(['go','test','-json','-vet=off','-count=1','-timeout','25m','./...'],cwd=os.path.join(wt,m),stdout=subprocess.PIPE,stderr=subprocess.DEVNULL,text=True)
    for l in p.stdout.splitlines():
        try: e=json.loads(l)
        except Exception: continue
        if e.get('Action')=='pass' and e.get('Test'): passed.add(e['Package']+'::'+e['Test'])
base=set(x for x in json.load(open('/root/.vp/BASELINE.json'))['stable_pass'] if any('/milvus-cdc/'+m+'/' in x for m in mods))
missing=sorted(base-passed)
print('SUITE missing=%d'%len(missing))
for x in missing[:20]: print('  MISSING',x)
PY
SUITE=$(head -1 /tmp/seedc-$P-$V-suite.log)
git checkout -q -- . ; git clean -fdq -- core server >/dev/null 2>&1
echo "RESULT $P/$V build_rc=$RC_BUILD demo_clean_rc=$RC_CLEAN demo_mut_rc=$RC_MUT $SUITE"
