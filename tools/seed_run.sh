#!/bin/bash
# usage: seed_run.sh <PROP> <VARIANT> [tier] [extra props to evaluate...]
# Confirms the seeded change /tmp/seed-out/<PROP>/<VARIANT> (builds, demo fails with / passes without, suite still passes)
# and then runs the property's check against the scratch worktree /tmp/wt-<PROP> with the change applied.
P=$1; V=$2; TIER=${3:-quick}; shift 3 2>/dev/null
SD=/tmp/seed-out/$P/$V
M=$SD/meta.json
MOD=$(python3 -c "import json;print(json.load(open('$M'))['module'])")
PKG=$(python3 -c "import json;print(json.load(open('$M'))['pkg'])")
RX=$(python3 -c "import json;print(json.load(open('$M'))['run_regex'])")
case "$PKG" in ./*) ;; *) PKG=./$PKG;; esac
case "$PKG" in */) ;; *) PKG=$PKG/;; esac
/verif/tools/seed_confirm.sh $P $V $MOD $PKG "$RX"
/verif/tools/seed_eval.sh /tmp/wt-$P $SD/patch.diff $TIER $P "$@"
