#!/bin/sh
# Runs the repository's own test suite (guard OFF) and compares the set of passing tests with BASELINE.json's stable_pass list.
out=${1:-/tmp/baseline-run.json}
: > "$out"
for m in core server; do
  (cd /repo/$m && go test -json -vet=off -count=1 -timeout 25m ./... >> "$out" 2>/dev/null)
done
python3 - "$out" <<'PY'
import json,sys
passed=set()
for l in open(sys.argv[1]):
    try: e=json.loads(l)
    except Exception: continue
    if e.get('Action')=='pass' and e.get('Test'):
        passed.add(e['Package']+'::'+e['Test'])
base=set(json.load(open('/root/.vp/BASELINE.json'))['stable_pass'])
missing=sorted(base-passed)
print('baseline stable_pass:',len(base),'passed now:',len(passed&base),'missing:',len(missing))
for m in missing[:40]: print('  MISSING',m)
sys.exit(1 if missing else 0)
PY
