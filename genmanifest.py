#!/usr/bin/env python3
"""Regenerates MANIFEST.json from checkcfg.PROPS + manifest_meta (kept in one place so it stays valid)."""
import json, os, sys
sys.path.insert(0, os.path.dirname(os.path.abspath(__file__)))
from checkcfg import PROPS
from manifest_meta import META, NOT_APPLICABLE, HOOK_COMMITS, NOTES

props = [json.loads(l)["id"] for l in open(os.path.join(os.path.dirname(os.path.abspath(__file__)), "properties.jsonl"))]
checks = []
for pid in props:
    if pid not in PROPS or pid not in META:
        continue
    m = META[pid]
    checks.append({
        "property_id": pid,
        "quick_cmd": f"./check {pid} --tier quick",
        "thorough_cmd": f"./check {pid} --tier thorough",
        "evidence_file": f"/verif/evidence/{pid}.json",
        "replay_cmd_template": f"./check {pid} --replay {{path}}",
        "engine": "rapid-harness",
        "level_claimed": {"category": PROPS[pid]["level"], "text": m["text"], "design_ref": m["design_ref"]},
        "level_note": m["note"],
        "technique": m["technique"],
    })
na = [{"property_id": p, "reason": NOT_APPLICABLE.get(p, "check not built yet in this session; see DESIGN.md section 7 (build order)")} for p in props if p not in {c["property_id"] for c in checks}]
man = {
    "version": 1,
    "setup_cmd": "./setup.sh",
    "hooks": {
        "guard": "verif",
        "enable": "go test -tags verif (the harness module /verif/harness replaces the milvus-cdc modules by /repo/core, /repo/server, /repo/rocksdb)",
        "baseline_off_cmd": "for m in core server; do (cd /repo/$m && go test -vet=off -count=1 -timeout 25m ./...); done",
        "source_commits": HOOK_COMMITS,
        "add_only": True,
    },
    "engines": [{"name": "rapid-harness", "path": "/verif/harness", "serves_properties": [c["property_id"] for c in checks],
                 "kind_free_text": "Go property-based tests (pgregory.net/rapid v1.3.0, stateful generation + shrinking) and native go fuzzing against the real milvus-cdc packages, driven by /verif/check"}],
    "checks": checks,
    "not_applicable": na,
    "notes": NOTES,
}
json.dump(man, open(os.path.join(os.path.dirname(os.path.abspath(__file__)), "MANIFEST.json"), "w"), indent=1)
print("checks:", [c["property_id"] for c in checks], "not_applicable:", [x["property_id"] for x in na])
