package hserver

// C11 — task lifecycle is a consistent state machine with complete cleanup.
//
// Model = explicit state machine per task. Histories of create / pause / resume / delete / get / list / position over <= 3 tasks
// and 2 targets, a transient store failure injected at a drawn store call of pause / resume / delete, source data produced
// between the calls, and restarts (new incarnation, gauges reset, ReloadTask) at quiescent points.
// After every step the four views of the state (API get, persisted record, in-memory table, per-state gauge sets) must equal
// the model, and the cleanup obligations of paused / deleted tasks are checked on observable resources.

import (
	"fmt"
	"os"
	"regexp"
	"sort"
	"strings"
	"sync/atomic"
	"testing"
	"time"

	"go.uber.org/zap/zapcore"
	"pgregory.net/rapid"

	"github.com/milvus-io/milvus-proto/go-api/v2/commonpb"

	"github.com/zilliztech/milvus-cdc/core/log"

	"github.com/zilliztech/milvus-cdc/server/metrics"
	"github.com/zilliztech/milvus-cdc/server/model/meta"

	"verifharness/fakes/milvus"
	"verifharness/quiesce"
	"verifharness/stats"
)

type c11task struct {
	id      string
	label   string
	target  int
	coll    *srcColl
	state   string // Running | Paused
	noAuto  bool
	lastRow int64 // last row produced while the task was not running (must never arrive while it stays so)
}

func stateName(s int) string { return meta.TaskState(s).String() }

// regTracker follows the registrations at the source message dispatcher through its log lines
// ("register done" / "deregister done" with role and vchannel), read incrementally from the capture file.
type regTracker struct {
	mark int64
	open map[string]int
	rest string
}

var regLine = regexp.MustCompile(`\["(register|deregister) done"\] \[role=([^\]]+)\] \[nodeID=\d+\] \[vchannel=([^\]]+)\]`)

func (r *regTracker) openStreams() []string {
	b := logSince(r.mark)
	r.mark += int64(len(b))
	text := r.rest + string(b)
	if i := strings.LastIndex(text, "\n"); i >= 0 {
		r.rest, text = text[i+1:], text[:i+1]
	} else {
		r.rest, text = text, ""
	}
	for _, m := range regLine.FindAllStringSubmatch(text, -1) {
		k := m[2] + "/" + m[3]
		if m[1] == "register" {
			r.open[k]++
		} else {
			r.open[k]--
		}
	}
	var out []string
	for k, n := range r.open {
		if n > 0 {
			out = append(out, k)
		}
	}
	sort.Strings(out)
	return out
}

func c11Body(t *rapid.T) {
	st := stats.New("C11")
	w := newWorld(t, worldOpt{targets: 2, maxTasks: 10})
	defer w.close(t)
	metrics.ResetTaskNumForVerif()
	w.start(t, false)
	log.SetLevel(zapcore.InfoLevel) // the register / deregister lines of the dispatcher client are read from the captured log
	regs := &regTracker{mark: logMark(), open: map[string]int{}}
	defer func() { log.SetLevel(baseLevel); logTruncate() }()
	p := w.newProducer()
	defer p.close()
	colls := []*srcColl{}
	for i := 0; i < 3; i++ {
		c := w.addSourceCollection(t, "default", fmt.Sprintf("c%d", i+1), 1, nil)
		for _, tg := range w.targets {
			tg.AddCollection("default", c.name, 1)
		}
		colls = append(colls, c)
	}
	p.tick(colls[0].pch[0], 10)

	tasks := map[string]*c11task{}
	deleted := []*c11task{}
	var hist []string
	ntask, nFail, nRestart, nPauseResume := 0, 0, 0, 0
	nInternal := 0
	nPauseDuringFailure := 0
	abandoned := false

	byLabel := func() []string {
		var l []string
		for _, ta := range tasks {
			l = append(l, ta.label)
		}
		sort.Strings(l)
		return l
	}
	get := func(label string) *c11task {
		for _, ta := range tasks {
			if ta.label == label {
				return ta
			}
		}
		return nil
	}
	runningOn := func(target int) []string {
		var ids []string
		for _, ta := range tasks {
			if ta.target == target && ta.state == "Running" {
				ids = append(ids, ta.id)
			}
		}
		sort.Strings(ids)
		return ids
	}

	check := func(where string) {
		// (1) the four views
		snap := w.inc.cdc.VerifSnapshot()
		persisted := map[string]*meta.TaskInfo{}
		for _, ti := range w.listTasks(t) {
			persisted[ti.TaskID] = ti
		}
		if len(persisted) != len(tasks) || len(snap.TaskStates) != len(tasks) {
			t.Fatalf("VERIF-VIOLATION C11 after %s: model has %d tasks, store %d, memory %d\nhistory: %v", where, len(tasks), len(persisted), len(snap.TaskStates), hist)
		}
		for id, ta := range tasks {
			r := w.inc.post(t, "get", map[string]any{"task_id": id})
			apiState := ""
			if tk, ok := r.Data["task"].(map[string]any); ok {
				apiState, _ = tk["state"].(string)
			}
			ps := "<absent>"
			if ti := persisted[id]; ti != nil {
				ps = ti.State.String()
			}
			ms := "<absent>"
			if s, ok := snap.TaskStates[id]; ok {
				ms = stateName(s)
			}
			gs := strings.Join(metrics.TaskNumStateForVerif(id), "+")
			if apiState != ta.state || ps != ta.state || ms != ta.state || gs != ta.state {
				t.Fatalf("VERIF-VIOLATION C11 after %s: task %s should be %s; API get says %q, persisted record %q, in-memory table %q, gauge sets %q\nhistory: %v",
					where, ta.label, ta.state, apiState, ps, ms, gs, hist)
			}
			st.Count("view_comparisons", 4)
		}
		for _, ta := range deleted {
			if r := w.inc.post(t, "get", map[string]any{"task_id": ta.id}); r.Code == 200 {
				t.Fatalf("VERIF-VIOLATION C11 after %s: deleted task %s is still returned by get\nhistory: %v", where, ta.label, hist)
			}
			if gs := metrics.TaskNumStateForVerif(ta.id); len(gs) != 0 {
				t.Fatalf("VERIF-VIOLATION C11 after %s: deleted task %s is still counted in the gauge of state %v\nhistory: %v", where, ta.label, gs, hist)
			}
			for _, l := range w.dumpMeta(t) {
				if strings.Contains(l, ta.id) {
					t.Fatalf("VERIF-VIOLATION C11 after %s: a record of the deleted task %s is left in the store: %s\nhistory: %v", where, ta.label, trunc(l, 300), hist)
				}
			}
		}
		// list = the set of model tasks
		lr := w.inc.post(t, "list", map[string]any{})
		if lt, _ := lr.Data["tasks"].([]any); len(lt) != len(tasks) {
			t.Fatalf("VERIF-VIOLATION C11 after %s: list returns %d tasks, expected %d\nhistory: %v", where, len(lt), len(tasks), hist)
		}
		// (2) per-target replication resources
		for ti := range w.targets {
			run := runningOn(ti)
			ent, ok := snap.Entities[w.uris[ti]]
			if len(run) == 0 {
				if ok {
					t.Fatalf("VERIF-VIOLATION C11 after %s: target %d has no running task but its replicate entity still exists (refCnt %d, quit funcs %v)\nhistory: %v", where, ti, ent.RefCnt, ent.QuitFuncKeys, hist)
				}
				continue
			}
			if !ok {
				t.Fatalf("VERIF-VIOLATION C11 after %s: target %d has running tasks %v but no replicate entity\nhistory: %v", where, ti, len(run), hist)
			}
			if int(ent.RefCnt) != len(run) || strings.Join(ent.QuitFuncKeys, ",") != strings.Join(run, ",") {
				t.Fatalf("VERIF-VIOLATION C11 after %s: target %d has %d running tasks but refCnt=%d and %d registered readers\nhistory: %v", where, ti, len(run), ent.RefCnt, len(ent.QuitFuncKeys), hist)
			}
		}
		// (3) no active readers and no busy background work when nothing runs
		total := len(runningOn(0)) + len(runningOn(1))
		if total == 0 {
			// Every source stream the service registered at the message dispatcher must have been deregistered. (The number of
			// open MQ consumers is not the criterion: the pinned msgdispatcher keeps the consumer of a main dispatcher whose last
			// target was removed while a solo dispatcher existed - a leak inside the library although everything was deregistered.)
			if !waitFor(3*time.Second, func() bool { return len(regs.openStreams()) == 0 }) {
				// not a wall-clock verdict: a reader that is still inside the retries of a failing pack deregisters when it comes
				// back; the streams count as left open only once the service is at rest
				if _, quiet := quiesce.WaitStable(func() int { return w.targets[0].NumCalls() + w.targets[1].NumCalls() }, 25*time.Second); !quiet {
					st.Count("inconclusive_quiescence", 1)
				}
			}
			if !waitFor(2*time.Second, func() bool { return len(regs.openStreams()) == 0 }) {
				t.Fatalf("VERIF-VIOLATION C11 after %s: no task is running but these source streams are still registered (never deregistered): %v\nhistory: %v", where, regs.openStreams(), hist)
			}
			if w.inc.mqf.Active.Load() != 0 {
				st.Count("consumers_left_open_by_dispatcher_library", int(w.inc.mqf.Active.Load()))
			}
			if busy, ok := quiesce.WaitStable(func() int { return w.targets[0].NumCalls() + w.targets[1].NumCalls() }, 6*time.Second); !ok {
				// distinguish a spinning goroutine from one that is merely slow to park
				same := 0
				for i := 0; i < 20; i++ {
					time.Sleep(10 * time.Millisecond)
					if b := quiesce.Busy(); b != "" && strings.Split(b, ":")[0] == strings.Split(busy, ":")[0] {
						same++
					}
				}
				spinning := strings.Contains(busy, "[running]") || strings.Contains(busy, "[runnable]")
				if same >= 18 && !spinning {
					st.Count("lingering_sleeping_goroutine(1 Hz poll, not busy)", 1)
				}
				if same >= 18 && spinning {
					t.Fatalf("VERIF-VIOLATION C11 after %s: no task is running but a goroutine of the service stays busy: %s\nhistory: %v", where, busy, hist)
				}
				st.Count("inconclusive_quiescence", 1)
			}
		}
	}

	// settle waits until the rows produced for running tasks arrived and checks that rows produced for non-running tasks did not.
	produceAndSettle := func(where string) {
		want := map[int]map[int64]*c11task{}
		for _, ta := range tasks {
			rows := p.insert(ta.coll, 0, 1, 5)
			if ta.state == "Running" {
				if want[ta.target] == nil {
					want[ta.target] = map[int64]*c11task{}
				}
				want[ta.target][rows[0]] = ta
			} else {
				ta.lastRow = rows[0]
			}
		}
		p.tick(colls[0].pch[0], 5)
		p.tick(colls[0].pch[0], 5)
		for ti, rows := range want {
			arrived := func(rs map[int64]*c11task) func() bool {
				return func() bool {
					acc := acceptedRows(w.targets[ti])
					for r := range rs {
						if acc[r] == 0 {
							return false
						}
					}
					return true
				}
			}
			ok := waitFor(4*time.Second, arrived(rows))
			// A stream of a collection that has no checkpoint yet is opened at the latest position, and it is opened
			// asynchronously after the create / resume request returned: a row produced in between is legitimately not read.
			// So the obligation is on rows produced once the streams are open: produce again (twice at most) before judging.
			for attempt := 0; !ok && attempt < 2; attempt++ {
				st.Count("rows_reproduced_after_late_stream_open", 1)
				again := map[int64]*c11task{}
				for _, ta := range rows {
					again[p.insert(ta.coll, 0, 1, 5)[0]] = ta
				}
				p.tick(colls[0].pch[0], 5)
				p.tick(colls[0].pch[0], 5)
				rows = again
				ok = waitFor(6*time.Second, arrived(rows))
			}
			if !ok {
				// not a wall-clock verdict: the rows are missing AND the service has come to rest (nothing is running, sleeping or
				// retrying), so they will never arrive although every view calls the task Running
				if nRestart > 0 {
					// After a simulated restart the dead incarnations live on as parked goroutines inside this process (a real
					// restart has none); a stall seen then is not attributed to the code under test. The case is abandoned and counted.
					st.Count("abandoned_stall_after_simulated_restart", 1)
					abandoned = true
					return
				}
				if _, quiet := quiesce.WaitStable(func() int { return w.targets[0].NumCalls() + w.targets[1].NumCalls() }, 6*time.Second); quiet {
					var names []string
					for _, ta := range rows {
						names = append(names, ta.label)
					}
					sort.Strings(names)
					t.Fatalf("VERIF-VIOLATION C11 after %s: tasks %v on target %d are Running in every view but their replication has stopped (source data produced, service at rest, nothing arrives); another task's pause/delete took more than its share\nhistory: %v\n%s",
						where, names, ti, hist, quiesce.Dump())
				}
				t.Fatalf("VERIF-TROUBLE C11 after %s: rows of running tasks did not reach target %d within the cap\nhistory: %v", where, ti, hist)
			}
		}
		for _, ta := range tasks {
			if ta.state != "Running" && ta.lastRow != 0 {
				if acceptedRows(w.targets[ta.target])[ta.lastRow] > 0 {
					t.Fatalf("VERIF-VIOLATION C11 after %s: task %s is %s but data produced after it was stopped reached its target\nhistory: %v", where, ta.label, ta.state, hist)
				}
			}
		}
	}

	inject := func(t *rapid.T) (string, func()) {
		if rapid.IntRange(0, 2).Draw(t, "inject") != 0 {
			return "", func() {}
		}
		// kinds the replication loops use concurrently for checkpoints (pos.get / pos.put) are not injected here: the hook is
		// process-wide and a failing checkpoint write pauses another task than the one the request addresses (C06 covers that)
		kind := rapid.SampledFrom([]string{"info.get", "info.put", "info.delete", "pos.delete", "txn", "commit"}).Draw(t, "failAt")
		skip := int32(rapid.IntRange(0, 1).Draw(t, "skip"))
		var n atomic.Int32
		fired := &atomic.Bool{}
		w.inc.store.setHook(func(op *storeOp) error {
			if op.Kind == kind && n.Add(1) == skip+1 {
				fired.Store(true)
				return fmt.Errorf("injected store failure at %s", kind)
			}
			return nil
		})
		return kind, func() {
			w.inc.store.setHook(nil)
			if fired.Load() {
				nFail++
			}
		}
	}

	t.Repeat(map[string]func(*rapid.T){
		"create": func(t *rapid.T) {
			if abandoned {
				return
			}
			if len(tasks) >= 3 {
				t.Skip("enough tasks")
			}
			target := rapid.IntRange(0, 1).Draw(t, "target")
			var free []*srcColl
			for _, c := range colls {
				used := false
				for _, ta := range tasks {
					used = used || (ta.target == target && ta.coll == c)
				}
				if !used {
					free = append(free, c)
				}
			}
			if len(free) == 0 {
				t.Skip("no free collection")
			}
			c := free[rapid.IntRange(0, len(free)-1).Draw(t, "coll")]
			noAuto := rapid.IntRange(0, 2).Draw(t, "noAuto") == 0
			r := w.inc.post(t, "create", map[string]any{"milvus_connect_param": map[string]any{"uri": w.uris[target], "connect_timeout": 3},
				"collection_infos": []any{map[string]any{"name": c.name}}, "disable_auto_start": noAuto})
			if r.Code != 200 {
				t.Fatalf("VERIF-VIOLATION C11: valid create (target %d, %s) failed: %s\nhistory: %v", target, c.name, r.Raw, hist)
			}
			ntask++
			id, _ := r.Data["task_id"].(string)
			tasks[id] = &c11task{id: id, label: fmt.Sprintf("T%d", ntask), target: target, coll: c, state: "Running", noAuto: noAuto}
			hist = append(hist, fmt.Sprintf("create(%s,t%d,%s,noAuto=%v)", tasks[id].label, target, c.name, noAuto))
			if os.Getenv("VERIF_TRACE") != "" {
				fmt.Printf("TRACE %s = %s\n", tasks[id].label, id)
			}
			check("create")
			produceAndSettle("create")
		},
		"pauseResume": func(t *rapid.T) {
			if abandoned {
				return
			}
			if len(tasks) == 0 {
				t.Skip("no task")
			}
			ta := get(rapid.SampledFrom(byLabel()).Draw(t, "task"))
			typ := rapid.SampledFrom([]string{"pause", "resume"}).Draw(t, "typ")
			kind, done := inject(t)
			r := w.inc.post(t, typ, map[string]any{"task_id": ta.id})
			done()
			legal := (typ == "pause" && ta.state == "Running") || (typ == "resume" && ta.state == "Paused")
			hist = append(hist, fmt.Sprintf("%s(%s,fail=%s)->%d", typ, ta.label, kind, r.Code))
			if r.Code == 200 {
				if !legal {
					t.Fatalf("VERIF-VIOLATION C11: %s of task %s in state %s succeeded\nhistory: %v", typ, ta.label, ta.state, hist)
				}
				if typ == "pause" {
					ta.state = "Paused"
				} else {
					ta.state, ta.lastRow = "Running", 0
				}
				nPauseResume++
			} else if legal && kind == "" {
				t.Fatalf("VERIF-VIOLATION C11: legal %s of task %s in state %s failed without any fault: %s\nhistory: %v", typ, ta.label, ta.state, r.Raw, hist)
			}
			check(typ)
			produceAndSettle(typ)
		},
		"delete": func(t *rapid.T) {
			if abandoned {
				return
			}
			if len(tasks) == 0 {
				t.Skip("no task")
			}
			ta := get(rapid.SampledFrom(byLabel()).Draw(t, "task"))
			kind, done := inject(t)
			r := w.inc.post(t, "delete", map[string]any{"task_id": ta.id})
			done()
			hist = append(hist, fmt.Sprintf("delete(%s,fail=%s)->%d", ta.label, kind, r.Code))
			if r.Code == 200 {
				delete(tasks, ta.id)
				deleted = append(deleted, ta)
			} else if kind == "" {
				t.Fatalf("VERIF-VIOLATION C11: delete of task %s failed without any fault: %s\nhistory: %v", ta.label, r.Raw, hist)
			}
			check("delete")
			produceAndSettle("delete")
		},
		"replicationFailure": func(t *rapid.T) {
			// the internal transition Running -> Paused: the replication of a running task fails (the downstream rejects its
			// writes, or its rows go to a partition nobody knows). The task must end Paused in all four views like after a pause
			// request - also when the failure is reported more than once.
			if abandoned {
				return
			}
			var running []string
			for _, l := range byLabel() {
				if get(l).state == "Running" {
					running = append(running, l)
				}
			}
			if len(running) == 0 || nInternal >= 2 {
				t.Skip("no running task")
			}
			ta := get(rapid.SampledFrom(running).Draw(t, "task"))
			class := rapid.SampledFrom([]string{"write_rejected", "unknown_partition"}).Draw(t, "class")
			tgt := w.targets[ta.target]
			var rows []int64
			unknownPart := ""
			if class == "write_rejected" {
				name := ta.coll.name
				tgt.Before = func(cc *milvus.CallCtx) error {
					if cc.Method == "ReplicateMessage" && cc.Pack != nil {
						for _, m := range cc.Pack.Msgs {
							if m.Type == commonpb.MsgType_Insert && m.Collection == name {
								return fmt.Errorf("injected: downstream rejects the write")
							}
						}
					}
					return nil
				}
				rows = append(rows, p.insert(ta.coll, 0, 1, 5)...)
				p.tick(ta.coll.pch[0], 5)
				rows = append(rows, p.insert(ta.coll, 0, 1, 5)...)
			} else {
				unknownPart = fmt.Sprintf("p_unknown%d", nInternal)
				rows = append(rows, p.insertPart(ta.coll, 0, 1, 5, unknownPart, ta.coll.id+77+int64(nInternal))...)
				p.tick(ta.coll.pch[0], 5)
				rows = append(rows, p.insertPart(ta.coll, 0, 1, 5, unknownPart, ta.coll.id+77+int64(nInternal))...)
			}
			// a pause request may overtake the report of the failure: the reader spends seconds in its retries before it reports the
			// unknown partition, so the failure arrives at a task which is already Paused (a second Running->Paused attempt)
			userPause := class == "unknown_partition" && rapid.Bool().Draw(t, "pauseWhileFailing")
			if userPause {
				time.Sleep(300 * time.Millisecond) // schedule aid only: lets the reader pick the rows up
				if r := w.inc.post(t, "pause", map[string]any{"task_id": ta.id}); r.Code != 200 {
					t.Fatalf("VERIF-VIOLATION C11: legal pause of task %s (Running) failed without any fault: %s\nhistory: %v", ta.label, r.Raw, hist)
				}
				hist = append(hist, fmt.Sprintf("pause(%s,while its rows fail)", ta.label))
				nPauseDuringFailure++
			}
			// rows of an unknown partition fail every running task which replicates this source collection (to any target)
			victims := []*c11task{ta}
			if class == "unknown_partition" {
				for _, l := range running {
					if o := get(l); o != ta && o.coll == ta.coll {
						victims = append(victims, o)
					}
				}
			}
			paused := waitTicking(p, []string{ta.coll.pch[0]}, 15*time.Second, func() bool {
				for _, v := range victims {
					if s, _ := taskView(w, t, v.id); s != "Paused" {
						return false
					}
				}
				return true
			})
			// let late reports of the same failure arrive before the fault is cleared
			quiesce.WaitStable(func() int { return w.targets[0].NumCalls() + w.targets[1].NumCalls() }, 4*time.Second)
			tgt.Before = nil
			hist = append(hist, fmt.Sprintf("replicationFailure(%s,%s)->paused=%v", ta.label, class, paused))
			if !paused {
				t.Fatalf("VERIF-VIOLATION C11: the replication of task %s failed (%s) but the task did not end Paused\nhistory: %v", ta.label, class, hist)
			}
			for _, v := range victims {
				if class == "unknown_partition" {
					w.targets[v.target].AddPartition("default", v.coll.name, unknownPart) // the rows can be written once the task is resumed
				}
				v.state, v.lastRow = "Paused", rows[len(rows)-1]
			}
			nInternal++
			check("replicationFailure")
			produceAndSettle("replicationFailure")
		},
		"unknown": func(t *rapid.T) {
			if abandoned {
				return
			}
			typ := rapid.SampledFrom([]string{"pause", "resume", "delete", "get"}).Draw(t, "typ")
			id := "no-such-task"
			if len(deleted) > 0 && rapid.Bool().Draw(t, "deletedID") {
				id = deleted[0].id
			}
			r := w.inc.post(t, typ, map[string]any{"task_id": id})
			hist = append(hist, fmt.Sprintf("%s(unknown)->%d", typ, r.Code))
			if r.Code == 200 {
				t.Fatalf("VERIF-VIOLATION C11: %s of an unknown / deleted task succeeded\nhistory: %v", typ, hist)
			}
			check(typ + "(unknown)")
		},
		"position": func(t *rapid.T) {
			if abandoned {
				return
			}
			if len(tasks) == 0 {
				t.Skip("no task")
			}
			ta := get(rapid.SampledFrom(byLabel()).Draw(t, "task"))
			r := w.inc.post(t, "position", map[string]any{"task_id": ta.id})
			hist = append(hist, fmt.Sprintf("position(%s)->%d", ta.label, r.Code))
			if r.Code != 200 {
				t.Fatalf("VERIF-VIOLATION C11: position of task %s failed: %s\nhistory: %v", ta.label, r.Raw, hist)
			}
		},
		"restart": func(t *rapid.T) {
			if abandoned {
				return
			}
			if len(tasks) == 0 || nRestart >= 2 || os.Getenv("VERIF_C11_NORESTART") != "" {
				t.Skip("nothing to reload")
			}
			before := map[string][]string{}
			for id := range tasks {
				for _, pp := range w.listPositions(t, id) {
					before[id] = append(before[id], fmt.Sprintf("%d", pp.CollectionID))
				}
			}
			w.inc.kill()
			// let the dying incarnation come to rest (its store and its streams are fenced)
			quiesce.Wait(func() int { return w.targets[0].NumCalls() + w.targets[1].NumCalls() }, 3*time.Second)
			metrics.ResetTaskNumForVerif()
			regs.openStreams() // the registrations of the dead incarnation are gone with it
			regs.open = map[string]int{}
			w.start(t, true)
			nRestart++
			hist = append(hist, "restart")
			for id, ta := range tasks {
				if ta.noAuto {
					ta.state = "Paused"
				} else {
					ta.state, ta.lastRow = "Running", 0
				}
				var after []string
				for _, pp := range w.listPositions(t, id) {
					after = append(after, fmt.Sprintf("%d", pp.CollectionID))
				}
				lost := false
				for _, b := range before[id] {
					found := false
					for _, a := range after {
						found = found || a == b
					}
					lost = lost || !found
				}
				if lost {
					t.Fatalf("VERIF-VIOLATION C11: checkpoint records of task %s were lost over the restart: %v -> %v\nhistory: %v", ta.label, before[id], after, hist)
				}
			}
			check("restart")
			produceAndSettle("restart")
		},
	})
	st.ClassIf(abandoned, "abandoned_after_simulated_restart")
	st.ClassIf(nPauseResume > 0, "pause_resume")
	st.ClassIf(nFail > 0, "store_failure_fired")
	st.ClassIf(nInternal > 0, "internal_pause_by_replication_failure")
	st.ClassIf(nPauseDuringFailure > 0, "pause_request_overtakes_failure_report")
	st.ClassIf(nRestart > 0, "restart")
	st.ClassIf(len(deleted) > 0, "delete")
	st.Count("steps", len(hist))
	st.NonTrivial(nPauseResume > 0 && (nFail > 0 || nRestart > 0))
	st.Fingerprint(strings.Join(hist, ";"))
	st.Sample(hist)
	st.Done()
}

func TestC11(t *testing.T) {
	rapid.Check(t, c11Body)
}
