package hserver

// C19 — the HTTP API is total: a well-formed answer always, rejects are side-effect free.
//
// (ii) rapid: structurally valid requests with adversarial field values, a labelled set of planted invalidities per create
//      request, on an empty server and after 0..3 accepted creates; other request types with known / unknown task ids; non-POST methods.
// (i)  native fuzzing (thorough tier) and a deterministic corpus replay (quick tier): arbitrary bytes as request body.
// Oracle: the handler returns (a panic escaping ServeHTTP is a violation), the body is exactly one JSON object whose code is
// 200, 400 or 500 (405 for a non-POST method); a request carrying a planted invalidity is answered with a non-200 code; for every
// non-200 answer the triple (task list, full meta-store dump, duplicate bookkeeping) is identical before and after.

import (
	"bytes"
	"encoding/base64"
	"encoding/json"
	"fmt"
	"net/http"
	"os"
	"path/filepath"
	"sort"
	"strings"
	"sync"
	"testing"
	"unicode/utf8"

	"go.uber.org/zap/zapcore"
	"google.golang.org/protobuf/proto"
	"pgregory.net/rapid"

	"github.com/milvus-io/milvus-proto/go-api/v2/msgpb"

	"github.com/zilliztech/milvus-cdc/core/log"

	"verifharness/fakes/mq"
	"verifharness/stats"
)

func validPos(channel string, idx uint64) string {
	b, _ := proto.Marshal(&msgpb.MsgPosition{ChannelName: channel, MsgID: mq.ID(idx).Serialize(), Timestamp: 0})
	return base64.StdEncoding.EncodeToString(b)
}

// shifted draws from 0..n such that the values rapid favours (small ones) land on k.. (the valid variants of a switch
// whose first k cases are the invalid ones).
func shifted(t *rapid.T, label string, n, k int) int {
	return (rapid.IntRange(0, n).Draw(t, label) + k) % (n + 1)
}

type genReq struct {
	typ     string
	data    map[string]any
	invalid []string // planted invalidities the statement lists: must be rejected
	label   string
}

var advNames = []string{"c1", "c2", "a*b", "a/b", "*", "Ünïcode", "c 1", "-", "c1%", strings.Repeat("n", 64), "cBADUTF8"}

func genCreate(t *rapid.T, w *world) genReq {
	g := genReq{typ: "create", data: map[string]any{}}
	plant := func(name string) { g.invalid = append(g.invalid, name) }
	// ---- target
	mp := map[string]any{"uri": w.uris[0], "connect_timeout": 3}
	switch shifted(t, "target", 40, 6) {
	case 0:
		delete(mp, "uri")
		plant("no_target")
	case 1:
		g.data["kafka_connect_param"] = map[string]any{"address": "127.0.0.1:1", "topic": "t"}
		plant("both_targets")
	case 2:
		mp = map[string]any{"host": "127.0.0.1", "port": rapid.SampledFrom([]int{0, -5}).Draw(t, "port")}
		plant("port_nonpositive")
	case 3:
		mp["connect_timeout"] = -1
		plant("neg_timeout")
	case 4:
		mp["username"] = "root"
		plant("user_without_password")
	case 5:
		mp = map[string]any{"port": 19530}
		plant("host_empty")
	}
	if len(mp) > 0 {
		g.data["milvus_connect_param"] = mp
	}
	// ---- buffer config
	switch shifted(t, "buffer", 30, 2) {
	case 0:
		g.data["buffer_config"] = map[string]any{"period": -1, "size": 1}
		plant("neg_period")
	case 1:
		g.data["buffer_config"] = map[string]any{"period": 1, "size": -7}
		plant("neg_size")
	case 2:
		g.data["buffer_config"] = map[string]any{"period": 0, "size": 0}
	}
	// ---- collections
	name := rapid.SampledFrom(advNames).Draw(t, "name")
	ci := map[string]any{"name": name}
	switch shifted(t, "nameBad", 24, 3) {
	case 0:
		ci["name"] = ""
		plant("name_empty")
	case 1:
		ci["name"] = rapid.SampledFrom([]string{"a.b", ".", "db1.c1", "c1."}).Draw(t, "dotname")
		plant("name_dot")
	case 2:
		ci["name"] = strings.Repeat("x", rapid.IntRange(65, 300).Draw(t, "len"))
		plant("name_long")
	}
	vch := func(coll int64, shard int) string { return fmt.Sprintf("%s-dml_%d_%dv%d", w.srcRoot, shard, coll, shard) }
	switch shifted(t, "positions", 30, 5) {
	case 0:
		ci["positions"] = map[string]any{vch(100, 0): "!!!not-base64!!!"}
		plant("pos_undecodable")
	case 1:
		ci["positions"] = map[string]any{vch(100, 0): base64.StdEncoding.EncodeToString([]byte{0xff, 0xff, 0xff})}
		plant("pos_not_proto")
	case 2:
		ci["positions"] = map[string]any{w.srcRoot + "-dml_0": validPos(w.srcRoot+"-dml_0", 1)}
		plant("pos_not_vchannel")
	case 3:
		ci["positions"] = map[string]any{vch(100, 0): validPos(vch(100, 0), 1), vch(200, 1): validPos(vch(200, 1), 1)}
		plant("pos_two_collections")
	case 4:
		ci["positions"] = map[string]any{vch(100, 0): validPos(vch(100, 0), 1), vch(100, 1): "%%%"}
		plant("pos_second_undecodable")
	case 5, 6:
		ci["positions"] = map[string]any{vch(100, 0): validPos(vch(100, 0), 3), vch(100, 1): validPos(vch(100, 1), 2)}
		if ci["name"] == "*" {
			plant("pos_with_star")
		}
	}
	form := shifted(t, "form", 40, 6)
	db := rapid.SampledFrom([]string{"default", "db1", "*", "d*", "d/b", strings.Repeat("d", 64)}).Draw(t, "db")
	switch form {
	case 0:
		plant("no_collections")
	case 1:
		g.data["collection_infos"] = []any{ci, map[string]any{"name": "other"}}
		plant("two_infos")
	case 2:
		g.data["collection_infos"] = []any{ci}
		g.data["db_collections"] = map[string]any{"db1": []any{map[string]any{"name": "c9"}}}
		plant("both_forms")
	case 3:
		g.data["db_collections"] = map[string]any{"db1": []any{ci}, "db2": []any{map[string]any{"name": "c9"}}}
		plant("two_dbs")
	case 4:
		g.data["db_collections"] = map[string]any{rapid.SampledFrom([]string{"a.b", "."}).Draw(t, "dotdb"): []any{ci}}
		plant("db_dot")
	case 5:
		g.data["db_collections"] = map[string]any{strings.Repeat("d", 65): []any{ci}}
		plant("db_long")
	case 6, 7, 8, 9, 10, 11, 12, 13, 14, 15, 16, 17, 18, 19, 20, 21, 22:
		g.data["db_collections"] = map[string]any{db: []any{ci}}
	default:
		g.data["collection_infos"] = []any{ci}
	}
	// ---- rpc channel
	switch shifted(t, "rpc", 24, 2) {
	case 0:
		g.data["rpc_channel_info"] = map[string]any{"name": "some-other-replicate-msg"}
		plant("rpc_foreign_channel")
	case 1:
		g.data["rpc_channel_info"] = map[string]any{"name": w.srcRoot + "-replicate-msg", "position": "@@@"}
		plant("rpc_pos_undecodable")
	case 2:
		g.data["rpc_channel_info"] = map[string]any{"name": w.srcRoot + "-replicate-msg", "position": validPos(w.srcRoot+"-replicate-msg", 1)}
	case 3:
		g.data["rpc_channel_info"] = map[string]any{"name": w.srcRoot + "-replicate-msg"}
	case 4:
		// no channel name (the configured replicate channel is used) but a position which cannot be decoded
		g.data["rpc_channel_info"] = map[string]any{"position": rapid.SampledFrom([]string{"@@@", "###="}).Draw(t, "badRpcPos")}
		plant("rpc_pos_undecodable")
	case 5:
		g.data["rpc_channel_info"] = map[string]any{"name": "", "position": validPos(w.srcRoot+"-replicate-msg", 1)}
	}
	// ---- mapping
	switch shifted(t, "mapping", 30, 2) {
	case 0:
		g.data["name_mapping"] = []any{map[string]any{"source_db": "a.b", "target_db": "x"}}
		plant("mapping_dot")
	case 1:
		g.data["name_mapping"] = []any{map[string]any{"source_db": "default", "target_db": "x", "collection_mapping": map[string]any{"c1": "y.z"}}}
		plant("mapping_dot")
	case 2:
		g.data["name_mapping"] = []any{map[string]any{"source_db": "default", "target_db": "x", "collection_mapping": map[string]any{"c1": "y"}}}
	}
	if rapid.IntRange(0, 7).Draw(t, "role") == 0 {
		g.data["extra_info"] = map[string]any{"enable_user_role": true}
	}
	if tid := rapid.SampledFrom([]string{"", "", "", "my-task", "a/b", "t%", "idBADUTF8"}).Draw(t, "taskid"); tid != "" {
		g.data["task_id"] = tid
	}
	if rapid.IntRange(0, 7).Draw(t, "noauto") == 0 {
		g.data["disable_auto_start"] = true
	}
	sort.Strings(g.invalid)
	g.label = "create[" + strings.Join(g.invalid, "+") + "]"
	return g
}

type c19state struct {
	list string
	dump string
	book string
}

func (w *world) c19snap(t fatalfer) c19state {
	r := w.inc.post(t, "list", map[string]any{})
	return c19state{list: canonList(r), dump: strings.Join(w.dumpMeta(t), "\n"), book: bookkeeping(w.inc.cdc.VerifSnapshot())}
}

func canonList(r resp) string {
	tasks, _ := r.Data["tasks"].([]any)
	var out []string
	for _, x := range tasks {
		b, _ := json.Marshal(x)
		out = append(out, string(b))
	}
	sort.Strings(out)
	return fmt.Sprintf("%d:%v", r.Code, out)
}

// wellFormed checks the shape of an answer: exactly one JSON object with a numeric code.
func wellFormed(method string, r resp, panicked any) string {
	if panicked != nil {
		return fmt.Sprintf("the handler panicked: %v", panicked)
	}
	dec := json.NewDecoder(strings.NewReader(r.Raw))
	var obj map[string]any
	if err := dec.Decode(&obj); err != nil {
		return fmt.Sprintf("the body is not a JSON object: %v (body %q)", err, trunc(r.Raw, 200))
	}
	if dec.More() {
		return fmt.Sprintf("the body holds more than one JSON value: %q", trunc(r.Raw, 300))
	}
	if method != http.MethodPost {
		if r.Code != 405 {
			return fmt.Sprintf("non-POST method %s answered with code %d", method, r.Code)
		}
		return ""
	}
	if r.Code != 200 && r.Code != 400 && r.Code != 500 {
		return fmt.Sprintf("code %d is none of 200/400/500 (body %q)", r.Code, trunc(r.Raw, 200))
	}
	return ""
}

func trunc(s string, n int) string {
	if len(s) > n {
		return s[:n] + "..."
	}
	return s
}

func c19Body(t *rapid.T) {
	st := stats.New("C19")
	w := newWorld(t, worldOpt{targets: 1, maxTasks: 5})
	defer w.close(t)
	w.start(t, false)
	var hist []string
	var taskIDs []string
	reachedValidation, rejectedAfterAccepted, planted := 0, 0, 0

	do := func(method string, g genReq) resp {
		before := w.c19snap(t)
		body, _ := json.Marshal(map[string]any{"request_type": g.typ, "request_data": g.data})
		body = bytes.ReplaceAll(body, []byte("BADUTF8"), []byte{0xff, 0xfe}) // raw bytes that are not valid UTF-8 inside a JSON string
		r, p := w.inc.postRaw(method, body)
		hist = append(hist, fmt.Sprintf("%s %s->%d", method, g.label, r.Code))
		if msg := wellFormed(method, r, p); msg != "" {
			t.Fatalf("VERIF-VIOLATION C19: %s\nrequest: %s\nhistory: %v", msg, body, hist)
		}
		if len(g.invalid) > 0 && method == http.MethodPost {
			planted++
			if r.Code == 200 {
				t.Fatalf("VERIF-VIOLATION C19: semantically invalid create request (%v) was accepted: %s\nrequest: %s\nhistory: %v", g.invalid, r.Raw, body, hist)
			}
		}
		if r.Code != 200 {
			after := w.c19snap(t)
			if after != before {
				t.Fatalf("VERIF-VIOLATION C19: rejected request (code %d: %s) changed the state\nrequest: %s\nbefore: list=%s book=%s\n%s\nafter: list=%s book=%s\n%s\nhistory: %v",
					r.Code, trunc(r.Msg, 200), body, before.list, before.book, before.dump, after.list, after.book, after.dump, hist)
			}
			if len(taskIDs) > 0 {
				rejectedAfterAccepted++
			}
		}
		return r
	}

	t.Repeat(map[string]func(*rapid.T){
		"create": func(t *rapid.T) {
			g := genCreate(t, w)
			r := do(http.MethodPost, g)
			if r.Code == 200 {
				if id, _ := r.Data["task_id"].(string); id != "" {
					taskIDs = append(taskIDs, id)
				}
			}
			if len(g.invalid) == 0 || r.Code == 400 {
				reachedValidation++
			}
		},
		"other": func(t *rapid.T) {
			typ := rapid.SampledFrom([]string{"get", "pause", "resume", "delete", "position", "list", "bogus", "", "maintenance"}).Draw(t, "typ")
			ids := append([]string{"", "nope", "../x", "%", "BADUTF8"}, taskIDs...)
			id := rapid.SampledFrom(ids).Draw(t, "id")
			known := false
			for _, x := range taskIDs {
				known = known || x == id
			}
			g := genReq{typ: typ, data: map[string]any{"task_id": id}, label: typ + "(" + map[bool]string{true: "known", false: "unknown"}[known] + ")"}
			if typ == "maintenance" {
				g.data = map[string]any{"operation": rapid.SampledFrom([]string{"set_log_level", "set_force_log_msg", "reset_log_msg", "x"}).Draw(t, "op"),
					"params": map[string]any{"log_level": rapid.SampledFrom([]string{"fatal", "bogus"}).Draw(t, "lvl"), "force": rapid.SampledFrom([]any{true, "x", 3}).Draw(t, "force")}}
			}
			r := do(http.MethodPost, g)
			if typ == "delete" && r.Code == 200 {
				for i, x := range taskIDs {
					if x == id {
						taskIDs = append(taskIDs[:i], taskIDs[i+1:]...)
						break
					}
				}
			}
		},
		"wrongType": func(t *rapid.T) {
			// structurally off: fields of the wrong JSON type
			g := genReq{typ: "create", label: "create[wrong-types]", data: map[string]any{
				"milvus_connect_param": rapid.SampledFrom([]any{"str", 5, []any{1}, map[string]any{"uri": 7}, map[string]any{"uri": w.uris[0], "port": "x"}}).Draw(t, "mp"),
				"collection_infos":     rapid.SampledFrom([]any{"x", map[string]any{"name": "c"}, []any{"c1"}, []any{map[string]any{"name": 5}}, []any{map[string]any{"name": "c1", "positions": "p"}}}).Draw(t, "ci"),
			}}
			do(http.MethodPost, g)
		},
		"method": func(t *rapid.T) {
			m := rapid.SampledFrom([]string{http.MethodGet, http.MethodPut, http.MethodDelete, http.MethodPatch}).Draw(t, "method")
			do(m, genReq{typ: "list", data: map[string]any{}, label: "list"})
		},
	})
	log.SetLevel(zapcore.FatalLevel)
	st.ClassIf(len(taskIDs) > 0, "had_accepted_tasks")
	st.ClassIf(rejectedAfterAccepted > 0, "reject_after_accepted_create")
	st.ClassIf(planted > 0, "planted_invalidity")
	st.Count("requests", len(hist))
	st.Count("planted_invalid_requests", planted)
	st.NonTrivial(reachedValidation > 0)
	st.Fingerprint(strings.Join(hist, ";"))
	st.Sample(hist)
	st.Done()
}

func TestC19(t *testing.T) {
	rapid.Check(t, c19Body)
}

// ---------------------------------------------------------------- byte level: one shared world per process

var (
	fuzzOnce  sync.Once
	fuzzWorld *world
	fuzzMu    sync.Mutex
)

type tfatal struct{ tb testing.TB }

func (f tfatal) Fatalf(format string, args ...any) { f.tb.Fatalf(format, args...) }
func (f tfatal) Logf(format string, args ...any)   { f.tb.Logf(format, args...) }

func fuzzSetup(tb testing.TB) *world {
	fuzzOnce.Do(func() {
		fuzzWorld = newWorld(tfatal{tb}, worldOpt{targets: 1, maxTasks: 3})
		fuzzWorld.start(tfatal{tb}, false)
	})
	return fuzzWorld
}

// c19Bytes is the byte-level property: TARGET in the body is replaced by the fake downstream's address.
func c19Bytes(tb testing.TB, raw []byte) (code int, nontrivial bool) {
	fuzzMu.Lock()
	defer fuzzMu.Unlock()
	w := fuzzSetup(tb)
	t := tfatal{tb}
	body := bytes.ReplaceAll(raw, []byte("TARGET"), []byte(w.uris[0]))
	body = bytes.ReplaceAll(body, []byte("RPCCHAN"), []byte(w.srcRoot+"-replicate-msg"))
	before := w.c19snap(t)
	r, p := w.inc.postRaw(http.MethodPost, body)
	if msg := wellFormed(http.MethodPost, r, p); msg != "" {
		tb.Fatalf("VERIF-VIOLATION C19: %s\nbody: %q", msg, trunc(string(body), 2000))
	}
	if r.Code != 200 {
		if after := w.c19snap(t); after != before {
			tb.Fatalf("VERIF-VIOLATION C19: rejected request (code %d: %s) changed the state\nbody: %q\nbefore: list=%s book=%s\n%s\nafter: list=%s book=%s\n%s",
				r.Code, trunc(r.Msg, 200), trunc(string(body), 2000), before.list, before.book, before.dump, after.list, after.book, after.dump)
		}
	}
	// keep the shared server small and quiet: remove what an accepted request created
	for _, ti := range w.listTasks(t) {
		w.inc.post(t, "delete", map[string]any{"task_id": ti.TaskID})
	}
	log.SetLevel(zapcore.FatalLevel)
	var probe struct {
		T string         `json:"request_type"`
		D map[string]any `json:"request_data"`
	}
	nontrivial = utf8.Valid(raw) && json.Unmarshal(body, &probe) == nil && probe.T != ""
	return r.Code, nontrivial
}

var c19Seeds = []string{
	`{"request_type":"create","request_data":{"milvus_connect_param":{"uri":"TARGET","token":"root:Milvus","connect_timeout":3},"collection_infos":[{"name":"*"}],"rpc_channel_info":{"name":"RPCCHAN"}}}`,
	`{"request_type":"create","request_data":{"milvus_connect_param":{"host":"127.0.0.1","port":19530,"username":"root","password":"Milvus","enable_tls":false,"connect_timeout":1},"db_collections":{"db1":[{"name":"c1","positions":{"a-dml_0_100v0":"CgVhLWRtbBIIAAAAAAAAAAE="}}]},"buffer_config":{"period":1,"size":1}}}`,
	`{"request_type":"create","request_data":{"kafka_connect_param":{"address":"127.0.0.1:9","topic":"t","enable_sasl":true,"sasl":{"username":"u","password":"p","mechanisms":"PLAIN","security_protocol":"SASL_SSL"}},"collection_infos":[{"name":"c1"}]}}`,
	`{"request_type":"create","request_data":{"milvus_connect_param":{"uri":"TARGET","connect_timeout":3},"db_collections":{"*":[{"name":"*"}]},"name_mapping":[{"source_db":"a","target_db":"b","collection_mapping":{"c1":"c2"}}],"extra_info":{"enable_user_role":true},"disable_auto_start":true,"task_id":"fixedid"}}`,
	`{"request_type":"delete","request_data":{"task_id":"30d1e325df604ebb99e14c2a335a1421"}}`,
	`{"request_type":"pause","request_data":{"task_id":"x"}}`,
	`{"request_type":"resume","request_data":{"task_id":"x"}}`,
	`{"request_type":"get","request_data":{"task_id":""}}`,
	`{"request_type":"position","request_data":{"task_id":"x"}}`,
	`{"request_type":"list","request_data":{}}`,
	`{"request_type":"maintenance","request_data":{"operation":"set_log_level","params":{"log_level":"fatal"}}}`,
	`{"request_type":"maintenance","request_data":{"operation":"set_force_log_msg","params":{"force":true}}}`,
	`{"request_type":"create","request_data":{"milvus_connect_param":{"uri":"TARGET","connect_timeout":3},"collection_infos":[{"name":"a.b"}]}}`,
	`{"request_type":"create","request_data":{"milvus_connect_param":{"uri":"TARGET","connect_timeout":-1},"collection_infos":[{"name":"c","positions":{"x":"y"}}]}}`,
	"{\"request_type\":\"create\",\"request_data\":{\"milvus_connect_param\":{\"uri\":\"TARGET\",\"connect_timeout\":3},\"collection_infos\":[{\"name\":\"c1\"}],\"task_id\":\"id\xff\xfe\"}}",
	"{\"request_type\":\"create\",\"request_data\":{\"milvus_connect_param\":{\"uri\":\"TARGET\",\"connect_timeout\":3},\"db_collections\":{\"d\xff\":[{\"name\":\"c\xfe\"}]}}}",
	"{\"request_type\":\"get\",\"request_data\":{\"task_id\":\"\xff\"}}",
	`{"request_type":"create","request_data":null}`,
	`{"request_type":5}`, `[]`, `null`, `{`, ``, `{"request_type":"create","request_data":{"collection_infos":[[[[[[[[[[]]]]]]]]]]}}`,
	`{"request_type":"create","request_data":{"milvus_connect_param":{"uri":"TARGET","port":1e400},"collection_infos":[{"name":"c"}]}}`,
	`{"request_type":"create","request_data":{"milvus_connect_param":{"uri":"TARGET","port":99999999999999999999},"collection_infos":[{"name":"c"}]}}`,
}

// TestC19_Corpus replays the seed corpus, simple derived variants (truncations, byte flips) and every saved fuzz finding.
func TestC19_Corpus(t *testing.T) {
	st := stats.New("C19")
	n, nt := 0, 0
	run := func(b []byte) {
		_, non := c19Bytes(t, b)
		n++
		if non {
			nt++
		}
	}
	for _, s := range c19Seeds {
		run([]byte(s))
		for _, cut := range []int{1, len(s) / 3, len(s) / 2, len(s) - 2} {
			if cut > 0 && cut < len(s) {
				run([]byte(s[:cut]))
			}
		}
		for _, pos := range []int{2, len(s) / 4, len(s) / 2} {
			if pos < len(s) {
				b := []byte(s)
				b[pos] ^= 0x20
				run(b)
			}
		}
	}
	dirs := []string{filepath.Join("testdata", "fuzz", "FuzzC19")}
	if d := os.Getenv("VERIF_REPLAY_DIR"); d != "" {
		dirs = append(dirs, d)
	}
	if f := os.Getenv("VERIF_REPLAY_FILE"); f != "" {
		if b, err := os.ReadFile(f); err == nil {
			run(b)
		}
	}
	for _, d := range dirs {
		files, _ := filepath.Glob(filepath.Join(d, "*.body"))
		for _, f := range files {
			if b, err := os.ReadFile(f); err == nil {
				run(b)
			}
		}
	}
	st.Count("byte_level_requests", n)
	st.Class("byte_level_corpus")
	st.NonTrivial(nt > 0)
	st.Fingerprint(fmt.Sprintf("corpus-%d", n))
	st.Done()
}

func FuzzC19(f *testing.F) {
	for _, s := range c19Seeds {
		f.Add([]byte(s))
	}
	f.Fuzz(func(t *testing.T, b []byte) {
		if len(b) > 1<<16 {
			t.Skip()
		}
		c19Bytes(t, b)
	})
}
