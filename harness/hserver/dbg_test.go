package hserver

import (
	"context"
	"fmt"
	"time"

	"github.com/milvus-io/milvus/pkg/mq/common"

	"verifharness/fakes/mq"
)

func dbgTopic(w *world, topic string) {
	f := mq.NewFactory(w.broker)
	s, _ := f.NewTtMsgStream(context.Background())
	defer s.Close()
	_ = s.AsConsumer(context.Background(), []string{topic}, "dbg", common.SubscriptionPositionEarliest)
	for {
		select {
		case p := <-s.Chan():
			types := ""
			for _, m := range p.Msgs {
				types += fmt.Sprintf("%v@%d ", m.GetType(), m.GetTimestamp())
			}
			fmt.Printf("DBG %s pack [%d,%d] %s end=%v\n", topic, p.BeginTs, p.EndTs, types, p.EndPositions[0].MsgID)
		case <-time.After(500 * time.Millisecond):
			fmt.Println("DBG", topic, "idle; topic len", w.broker.Len(topic))
			return
		}
	}
}
