package hserver

// The simulator ("world") used by the server-level checks: the REAL MetaCDC + REAL HTTP handler around
//   - a real etcd (embedded) holding the source catalog and the real EtcdMetaStore (different roots),
//   - fake downstream Milvus gRPC servers underneath the real SDK client / MilvusDataHandler / TargetClient,
//   - an in-memory MQ underneath the real mqMsgStream / MqTtMsgStream / msgdispatcher,
//   - a decorating MetaStoreFactory that can fail or hold any store call.
// A restart is a new incarnation (new MetaCDC, new MQ consumers, new store decorator) over the same etcd content.

import (
	"bytes"
	"context"
	"encoding/json"
	"fmt"
	"io"
	"net/http"
	"net/http/httptest"
	"sort"
	"strings"
	"sync"
	"sync/atomic"
	"time"

	clientv3 "go.etcd.io/etcd/client/v3"

	coreapi "github.com/zilliztech/milvus-cdc/core/api"
	"github.com/zilliztech/milvus-cdc/core/config"
	cdcreader "github.com/zilliztech/milvus-cdc/core/reader"
	"github.com/zilliztech/milvus-cdc/server"
	"github.com/zilliztech/milvus-cdc/server/api"
	"github.com/zilliztech/milvus-cdc/server/model/meta"
	"github.com/zilliztech/milvus-cdc/server/msgpacker"
	"github.com/zilliztech/milvus-cdc/server/store"

	"verifharness/quiesce"
	"verifharness/fakes/catalog"
	"verifharness/fakes/etcdsrv"
	"verifharness/fakes/milvus"
	"verifharness/fakes/mq"
)

var worldSeq int64

type fatalfer interface {
	Fatalf(format string, args ...any)
	Logf(format string, args ...any)
}

// ---------------------------------------------------------------- fault-injecting store decorator

type storeOp struct {
	Seq  int
	Kind string // info.get info.put info.delete pos.get pos.put pos.delete txn commit rs.get rs.put rs.remove
	Task string
	Coll int64
	Obj  any
}

type faultFactory struct {
	inner  api.MetaStoreFactory
	mu     sync.Mutex
	seq    int
	hook   func(op *storeOp) error // before the call; error = the call fails without effect
	after  func(op *storeOp)       // after the call succeeded
	fenced atomic.Bool
	trace  []string
}

var errFenced = fmt.Errorf("verif: store fenced (incarnation is dead)")

func (f *faultFactory) before(kind, task string, coll int64, obj any) (*storeOp, error) {
	if f.fenced.Load() {
		return nil, errFenced
	}
	f.mu.Lock()
	f.seq++
	op := &storeOp{Seq: f.seq, Kind: kind, Task: task, Coll: coll, Obj: obj}
	h := f.hook
	f.mu.Unlock()
	if h != nil {
		if err := h(op); err != nil {
			f.mu.Lock()
			f.trace = append(f.trace, fmt.Sprintf("%d %s %s/%d FAIL", op.Seq, kind, task, coll))
			f.mu.Unlock()
			return op, err
		}
	}
	return op, nil
}

func (f *faultFactory) done(op *storeOp) {
	f.mu.Lock()
	a := f.after
	f.mu.Unlock()
	if a != nil {
		a(op)
	}
}

func (f *faultFactory) setHook(h func(op *storeOp) error) {
	f.mu.Lock()
	f.hook = h
	f.mu.Unlock()
}

func (f *faultFactory) setAfter(h func(op *storeOp)) {
	f.mu.Lock()
	f.after = h
	f.mu.Unlock()
}

func (f *faultFactory) opCount() int {
	f.mu.Lock()
	defer f.mu.Unlock()
	return f.seq
}

type infoStore struct {
	f *faultFactory
	s api.MetaStore[*meta.TaskInfo]
}

func (s infoStore) Put(ctx context.Context, o *meta.TaskInfo, txn any) error {
	op, err := s.f.before("info.put", o.TaskID, 0, o)
	if err != nil {
		return err
	}
	if err = s.s.Put(ctx, o, txn); err == nil {
		s.f.done(op)
	}
	return err
}
func (s infoStore) Get(ctx context.Context, o *meta.TaskInfo, txn any) ([]*meta.TaskInfo, error) {
	if _, err := s.f.before("info.get", o.TaskID, 0, o); err != nil {
		return nil, err
	}
	return s.s.Get(ctx, o, txn)
}
func (s infoStore) Delete(ctx context.Context, o *meta.TaskInfo, txn any) error {
	if _, err := s.f.before("info.delete", o.TaskID, 0, o); err != nil {
		return err
	}
	return s.s.Delete(ctx, o, txn)
}

type posStore struct {
	f *faultFactory
	s api.MetaStore[*meta.TaskCollectionPosition]
}

func (s posStore) Put(ctx context.Context, o *meta.TaskCollectionPosition, txn any) error {
	op, err := s.f.before("pos.put", o.TaskID, o.CollectionID, o)
	if err != nil {
		return err
	}
	if err = s.s.Put(ctx, o, txn); err == nil {
		s.f.done(op)
	}
	return err
}
func (s posStore) Get(ctx context.Context, o *meta.TaskCollectionPosition, txn any) ([]*meta.TaskCollectionPosition, error) {
	if _, err := s.f.before("pos.get", o.TaskID, o.CollectionID, o); err != nil {
		return nil, err
	}
	return s.s.Get(ctx, o, txn)
}
func (s posStore) Delete(ctx context.Context, o *meta.TaskCollectionPosition, txn any) error {
	if _, err := s.f.before("pos.delete", o.TaskID, o.CollectionID, o); err != nil {
		return err
	}
	return s.s.Delete(ctx, o, txn)
}

type rsStore struct {
	f *faultFactory
	s coreapi.ReplicateStore
}

func (s rsStore) Get(ctx context.Context, key string, withPrefix bool) ([]coreapi.MetaMsg, error) {
	if _, err := s.f.before("rs.get", key, 0, nil); err != nil {
		return nil, err
	}
	return s.s.Get(ctx, key, withPrefix)
}
func (s rsStore) Put(ctx context.Context, key string, value coreapi.MetaMsg) error {
	if _, err := s.f.before("rs.put", key, 0, nil); err != nil {
		return err
	}
	return s.s.Put(ctx, key, value)
}
func (s rsStore) Remove(ctx context.Context, key string) error {
	if _, err := s.f.before("rs.remove", key, 0, nil); err != nil {
		return err
	}
	return s.s.Remove(ctx, key)
}

func (f *faultFactory) GetTaskInfoMetaStore(ctx context.Context) api.MetaStore[*meta.TaskInfo] {
	return infoStore{f, f.inner.GetTaskInfoMetaStore(ctx)}
}
func (f *faultFactory) GetTaskCollectionPositionMetaStore(ctx context.Context) api.MetaStore[*meta.TaskCollectionPosition] {
	return posStore{f, f.inner.GetTaskCollectionPositionMetaStore(ctx)}
}
func (f *faultFactory) GetReplicateStore(ctx context.Context) coreapi.ReplicateStore {
	return rsStore{f, f.inner.GetReplicateStore(ctx)}
}
func (f *faultFactory) Txn(ctx context.Context) (any, func(err error) error, error) {
	if _, err := f.before("txn", "", 0, nil); err != nil {
		return nil, nil, err
	}
	t, commit, err := f.inner.Txn(ctx)
	if err != nil {
		return nil, nil, err
	}
	return t, func(e error) error {
		if e == nil {
			if _, herr := f.before("commit", "", 0, nil); herr != nil {
				_ = commit(herr) // roll back
				return herr
			}
		}
		return commit(e)
	}, nil
}

// ---------------------------------------------------------------- world

type incarnation struct {
	n     int
	mqf   *mq.Factory
	store *faultFactory
	cdc   *server.MetaCDC
	h     http.Handler
}

type world struct {
	id       int64
	ep       string
	cli      *clientv3.Client
	srcRoot  string
	metaRoot string
	cat      *catalog.Writer
	broker   *mq.Broker
	targets  []*milvus.Server
	uris     []string
	cfg      func() *server.CDCServerConfig
	inc      *incarnation
	nInc     int
}

type worldOpt struct {
	targets   int
	npch      int
	packerMax int
	retry     int
	maxTasks  int
}

func newWorld(t fatalfer, o worldOpt) *world {
	quiesce.SetBaseline() // goroutines left behind by earlier cases of this process are not part of this case
	if o.targets == 0 {
		o.targets = 1
	}
	if o.npch == 0 {
		o.npch = 2
	}
	if o.packerMax == 0 {
		o.packerMax = 1
	}
	if o.retry == 0 {
		o.retry = 2
	}
	if o.maxTasks == 0 {
		o.maxTasks = 100
	}
	ep, err := etcdsrv.Endpoint()
	if err != nil {
		t.Fatalf("VERIF-TROUBLE: embedded etcd: %v", err)
	}
	cli, err := etcdsrv.Client()
	if err != nil {
		t.Fatalf("VERIF-TROUBLE: etcd client: %v", err)
	}
	id := atomic.AddInt64(&worldSeq, 1)
	w := &world{id: id, ep: ep, cli: cli, srcRoot: fmt.Sprintf("src%d", id), metaRoot: fmt.Sprintf("cdcmeta%d", id), broker: mq.NewBroker()}
	w.cat = &catalog.Writer{Cli: cli, Root: w.srcRoot}
	if err := w.cat.PutTSO(time.Now()); err != nil {
		t.Fatalf("VERIF-TROUBLE: etcd put: %v", err)
	}
	if err := w.cat.PutDatabase(1, "default", false); err != nil {
		t.Fatalf("VERIF-TROUBLE: etcd put: %v", err)
	}
	for i := 0; i < o.targets; i++ {
		s := milvus.New(fmt.Sprintf("tgt%d", i), o.npch)
		uri, err := s.StartOn(fmt.Sprintf("127.%d.%d.%d", 1+(id/200)%200, 1+id%200, 1+i))
		if err != nil {
			t.Fatalf("VERIF-TROUBLE: fake milvus: %v", err)
		}
		w.targets = append(w.targets, s)
		w.uris = append(w.uris, uri)
	}
	w.cfg = func() *server.CDCServerConfig {
		return &server.CDCServerConfig{
			MaxTaskNum: o.maxTasks, MaxNameLength: 64,
			Retry:  config.RetrySettings{RetryTimes: o.retry, InitBackOff: 1, MaxBackOff: 1},
			Packer: msgpacker.PackerConfig{MaxCount: o.packerMax},
			SourceConfig: server.MilvusSourceConfig{
				Etcd:        config.EtcdServerConfig{Address: []string{ep}, RootPath: w.srcRoot, MetaSubPath: "meta"},
				ReadChanLen: 4, DefaultPartitionName: "_default", ReplicateChan: w.srcRoot + "-replicate-msg",
				Pulsar: config.PulsarConfig{Address: "fake"}, TimeTickInterval: 20,
			},
		}
	}
	return w
}

// start begins a new incarnation of the service over the persistent state; reload = what CDCServer.Run does first.
func (w *world) start(t fatalfer, reload bool) *incarnation {
	inner, err := store.NewEtcdMetaStoreWithAddress(context.Background(), []string{w.ep}, w.metaRoot)
	if err != nil {
		t.Fatalf("VERIF-TROUBLE: meta store: %v", err)
	}
	w.nInc++
	if w.nInc > 1 {
		// a restarted process starts with fresh process-wide state (the previous incarnation is dead: fenced and at rest)
		cdcreader.ResetTSManagerForVerif()
	}
	inc := &incarnation{n: w.nInc, mqf: mq.NewFactory(w.broker), store: &faultFactory{inner: inner}}
	cfg := w.cfg()
	inc.cdc = server.NewMetaCDCForVerif(cfg, inc.store, mq.Creator{F: inc.mqf})
	inc.h = server.NewCDCHandlerForVerif(inc.cdc, cfg)
	w.inc = inc
	if reload {
		inc.cdc.ReloadTask()
	}
	return inc
}

type resp struct {
	HTTP int
	Code int
	Msg  string
	Data map[string]any
	Raw  string
}

func (inc *incarnation) postRaw(method string, body []byte) (r resp, panicked any) {
	rr := httptest.NewRecorder()
	func() {
		defer func() { panicked = recover() }()
		inc.h.ServeHTTP(rr, httptest.NewRequest(method, "/cdc", bytes.NewReader(body)))
	}()
	bs, _ := io.ReadAll(rr.Body)
	r.HTTP = rr.Code
	r.Raw = string(bs)
	var m struct {
		Code    int            `json:"code"`
		Message string         `json:"message"`
		Data    map[string]any `json:"data"`
	}
	if json.Unmarshal(bs, &m) == nil {
		r.Code, r.Msg, r.Data = m.Code, m.Message, m.Data
	}
	return r, panicked
}

func (inc *incarnation) post(t fatalfer, typ string, data map[string]any) resp {
	b, _ := json.Marshal(map[string]any{"request_type": typ, "request_data": data})
	r, p := inc.postRaw(http.MethodPost, b)
	if p != nil {
		t.Fatalf("VERIF-VIOLATION: handler panicked on %s %s: %v", typ, b, p)
	}
	return r
}

// dumpMeta is the complete content of the CDC meta store of this world (key=value lines, sorted).
func (w *world) dumpMeta(t fatalfer) []string {
	ctx, cancel := context.WithTimeout(context.Background(), 10*time.Second)
	defer cancel()
	r, err := w.cli.Get(ctx, w.metaRoot+"/", clientv3.WithPrefix())
	if err != nil {
		t.Fatalf("VERIF-TROUBLE: etcd get: %v", err)
	}
	var out []string
	for _, kv := range r.Kvs {
		out = append(out, string(kv.Key)+"="+string(kv.Value))
	}
	sort.Strings(out)
	return out
}

// listTasks reads the persisted task records directly from the real store (not through the decorator).
func (w *world) listTasks(t fatalfer) []*meta.TaskInfo {
	infos, err := w.inc.store.inner.GetTaskInfoMetaStore(context.Background()).Get(context.Background(), &meta.TaskInfo{}, nil)
	if err != nil {
		t.Fatalf("VERIF-TROUBLE: list tasks: %v", err)
	}
	sort.Slice(infos, func(i, j int) bool { return infos[i].TaskID < infos[j].TaskID })
	return infos
}

func (w *world) listPositions(t fatalfer, task string) []*meta.TaskCollectionPosition {
	ps, err := w.inc.store.inner.GetTaskCollectionPositionMetaStore(context.Background()).Get(context.Background(), &meta.TaskCollectionPosition{TaskID: task}, nil)
	if err != nil {
		t.Fatalf("VERIF-TROUBLE: list positions: %v", err)
	}
	sort.Slice(ps, func(i, j int) bool { return ps[i].CollectionID < ps[j].CollectionID })
	return ps
}

// kill simulates the death of the current incarnation: its MQ consumers stop delivering and every store call fails.
// (Downstream calls cannot be fenced per incarnation in-process; callers wait for quiescence before starting the next.)
func (inc *incarnation) kill() {
	inc.mqf.Fence()
	inc.store.fenced.Store(true)
}

// close ends the case: every task is deleted (which stops readers), consumers are fenced, servers stopped, etcd prefixes removed.
func (w *world) close(t fatalfer) {
	if w.inc != nil {
		w.inc.store.setHook(nil)
		w.inc.store.setAfter(nil)
		if !w.inc.store.fenced.Load() {
			for _, ti := range w.listTasks(t) {
				w.inc.post(t, "delete", map[string]any{"task_id": ti.TaskID})
			}
		}
		w.inc.kill()
	}
	for _, s := range w.targets {
		s.Before, s.After = nil, nil
		s.Stop()
	}
	ctx, cancel := context.WithTimeout(context.Background(), 10*time.Second)
	defer cancel()
	_, _ = w.cli.Delete(ctx, w.metaRoot+"/", clientv3.WithPrefix())
	_, _ = w.cli.Delete(ctx, w.srcRoot+"/", clientv3.WithPrefix())
	_ = w.cli.Close()
}

func sortedCopy(m map[string][]string) map[string][]string {
	out := map[string][]string{}
	for k, v := range m {
		if len(v) == 0 {
			continue
		}
		c := append([]string(nil), v...)
		sort.Strings(c)
		out[k] = c
	}
	return out
}

// bookkeeping renders the duplicate-detection bookkeeping canonically (multisets per target; empty lists = absent).
// The nameMapping map is write-only in the code under test (nothing reads it) and is not part of the comparison.
func bookkeeping(s server.VerifSnapshot) string {
	var sb strings.Builder
	for _, part := range []struct {
		n string
		m map[string][]string
	}{{"data", sortedCopy(s.Data)}, {"exclude", sortedCopy(s.ExcludeData)}} {
		keys := make([]string, 0, len(part.m))
		for k := range part.m {
			keys = append(keys, k)
		}
		sort.Strings(keys)
		for _, k := range keys {
			fmt.Fprintf(&sb, "%s[%s]=%v;", part.n, k, part.m[k])
		}
	}
	keys := make([]string, 0)
	for k, v := range s.ExtraInfos {
		if v.EnableUserRole {
			keys = append(keys, k)
		}
	}
	sort.Strings(keys)
	fmt.Fprintf(&sb, "userrole=%v", keys)
	return sb.String()
}

type milvusCallCtx = milvus.CallCtx

// prepare begins a new incarnation without reloading the persisted tasks (the caller reloads after arranging faults).
func (w *world) prepare(t fatalfer) *incarnation { return w.start(t, false) }
