package hserver

// Data-flow part of the simulator: source collections in the catalog, a producer writing real Milvus messages into the
// fake MQ through the real mqMsgStream (Produce for DML with ShardName = vchannel, Broadcast for time ticks), and helpers
// that read what the fake downstream accepted.

import (
	"google.golang.org/protobuf/proto"
	"context"
	"fmt"
	"sort"
	"sync"
	"time"

	"github.com/milvus-io/milvus-proto/go-api/v2/commonpb"
	"github.com/milvus-io/milvus-proto/go-api/v2/msgpb"
	"github.com/milvus-io/milvus-proto/go-api/v2/schemapb"
	"github.com/milvus-io/milvus/pkg/mq/msgstream"
	"github.com/milvus-io/milvus/pkg/util/tsoutil"

	"github.com/zilliztech/milvus-cdc/core/pb"

	"verifharness/fakes/milvus"
	"verifharness/fakes/mq"
)

type srcColl struct {
	id     int64
	dbID   int64
	db     string
	name   string
	shards int
	vch    []string
	pch    []string
	partID int64
	create uint64
	info   *pb.CollectionInfo
}

type producer struct {
	mu      sync.Mutex
	w       *world
	f       *mq.Factory
	streams map[string]msgstream.MsgStream // one per pchannel
	clock   map[string]uint64              // last physical ms used per pchannel
	nextRow int64
	base    int64 // physical ms of the world's epoch
	// what was fed: row id -> (collection id, vchannel, source ts, topic index of the message)
	fed map[int64]*fedRow
}

type fedRow struct {
	row    int64
	coll   int64
	vch    string
	ts     uint64
	msgIdx uint64
	delete bool
}

func (w *world) newProducer() *producer {
	return &producer{w: w, f: mq.NewFactory(w.broker), streams: map[string]msgstream.MsgStream{}, clock: map[string]uint64{}, nextRow: 1000,
		base: time.Now().Add(-time.Hour).UnixMilli(), fed: map[int64]*fedRow{}}
}

func (p *producer) stream(pch string) msgstream.MsgStream {
	s := p.streams[pch]
	if s == nil {
		s, _ = p.f.NewMsgStream(context.Background())
		s.AsProducer(context.Background(), []string{pch})
		p.streams[pch] = s
	}
	return s
}

// now advances the clock of a pchannel by step ms (+skew relative to the other channels is up to the caller) and returns a hybrid ts.
func (p *producer) now(pch string, stepMs uint64) uint64 {
	if p.clock[pch] == 0 {
		p.clock[pch] = uint64(p.base)
	}
	p.clock[pch] += stepMs
	return tsoutil.ComposeTS(int64(p.clock[pch]), 0)
}

// tick broadcasts a time tick on the pchannel (what the source's root coord does continuously).
func (p *producer) tick(pch string, stepMs uint64) uint64 {
	p.mu.Lock()
	defer p.mu.Unlock()
	ts := p.now(pch, stepMs)
	m := &msgstream.TimeTickMsg{BaseMsg: msgstream.BaseMsg{BeginTimestamp: ts, EndTimestamp: ts, HashValues: []uint32{0}},
		TimeTickMsg: &msgpb.TimeTickMsg{Base: &commonpb.MsgBase{MsgType: commonpb.MsgType_TimeTick, Timestamp: ts}}}
	_, _ = p.stream(pch).Broadcast(context.Background(), &msgstream.MsgPack{Msgs: []msgstream.TsMsg{m}})
	return ts
}

// insert produces one insert message with n fresh rows on shard i of the collection and returns the row ids.
func (p *producer) insert(c *srcColl, shard, n int, stepMs uint64) []int64 {
	return p.insertPart(c, shard, n, stepMs, "_default", c.partID)
}

// insertPart is insert with an explicit partition (e.g. one the downstream does not have).
func (p *producer) insertPart(c *srcColl, shard, n int, stepMs uint64, partName string, partID int64) []int64 {
	p.mu.Lock()
	defer p.mu.Unlock()
	pch := c.pch[shard]
	ts := p.now(pch, stepMs)
	rows := make([]int64, n)
	tss := make([]uint64, n)
	for i := range rows {
		p.nextRow++
		rows[i] = p.nextRow
		tss[i] = ts
	}
	// the real producer (proxy) gives every message a unique id and the stream splits inserts per row, so one message per row
	pack := &msgstream.MsgPack{}
	for _, r := range rows {
		pack.Msgs = append(pack.Msgs, &msgstream.InsertMsg{BaseMsg: msgstream.BaseMsg{BeginTimestamp: ts, EndTimestamp: ts, HashValues: []uint32{0}},
			InsertRequest: &msgpb.InsertRequest{Base: &commonpb.MsgBase{MsgType: commonpb.MsgType_Insert, Timestamp: ts, MsgID: r},
				CollectionID: c.id, CollectionName: c.name, DbName: c.db, PartitionName: partName, PartitionID: partID, ShardName: c.vch[shard],
				NumRows: 1, RowIDs: []int64{r}, Timestamps: []uint64{ts}, Version: msgpb.InsertDataVersion_ColumnBased,
				FieldsData: []*schemapb.FieldData{{Type: schemapb.DataType_Int64, FieldName: "pk", FieldId: 100,
					Field: &schemapb.FieldData_Scalars{Scalars: &schemapb.ScalarField{Data: &schemapb.ScalarField_LongData{LongData: &schemapb.LongArray{Data: []int64{r}}}}}}}}})
	}
	if err := p.stream(pch).Produce(context.Background(), pack); err != nil {
		panic("VERIF-TROUBLE: produce: " + err.Error())
	}
	idx := uint64(p.w.broker.Len(pch))
	for _, r := range rows {
		p.fed[r] = &fedRow{row: r, coll: c.id, vch: c.vch[shard], ts: ts, msgIdx: idx}
	}
	return rows
}

// deletePart produces one delete message (one fresh primary key) for an explicit partition on shard i and returns the key.
func (p *producer) deletePart(c *srcColl, shard int, stepMs uint64, partName string, partID int64) int64 {
	p.mu.Lock()
	defer p.mu.Unlock()
	pch := c.pch[shard]
	ts := p.now(pch, stepMs)
	p.nextRow++
	pk := p.nextRow
	m := &msgstream.DeleteMsg{BaseMsg: msgstream.BaseMsg{BeginTimestamp: ts, EndTimestamp: ts, HashValues: []uint32{0}},
		DeleteRequest: &msgpb.DeleteRequest{Base: &commonpb.MsgBase{MsgType: commonpb.MsgType_Delete, Timestamp: ts, MsgID: pk},
			CollectionID: c.id, CollectionName: c.name, DbName: c.db, PartitionName: partName, PartitionID: partID, ShardName: c.vch[shard],
			NumRows: 1, Timestamps: []uint64{ts},
			PrimaryKeys: &schemapb.IDs{IdField: &schemapb.IDs_IntId{IntId: &schemapb.LongArray{Data: []int64{pk}}}}}}
	if err := p.stream(pch).Produce(context.Background(), &msgstream.MsgPack{Msgs: []msgstream.TsMsg{m}}); err != nil {
		panic("VERIF-TROUBLE: produce: " + err.Error())
	}
	return pk
}

// acceptedDeletes returns primary key -> number of accepted ReplicateMessage packs that carried a delete of it.
func acceptedDeletes(s *milvus.Server) map[int64]int {
	out := map[int64]int{}
	for _, p := range s.Packs() {
		if !p.Accepted {
			continue
		}
		for _, m := range p.Msgs {
			if m.Type == commonpb.MsgType_Delete {
				for _, k := range m.PKs {
					out[k]++
				}
			}
		}
	}
	return out
}

// dropCollection produces the drop-collection message on every shard (what the source does when a collection is dropped).
func (p *producer) dropCollection(c *srcColl, stepMs uint64) {
	p.mu.Lock()
	defer p.mu.Unlock()
	for i, pch := range c.pch {
		ts := p.now(pch, stepMs)
		m := &msgstream.DropCollectionMsg{BaseMsg: msgstream.BaseMsg{BeginTimestamp: ts, EndTimestamp: ts, HashValues: []uint32{0}},
			DropCollectionRequest: &msgpb.DropCollectionRequest{Base: &commonpb.MsgBase{MsgType: commonpb.MsgType_DropCollection, Timestamp: ts},
				CollectionID: c.id, CollectionName: c.name, DbName: c.db}}
		_ = i
		// the real root coord broadcasts the drop message to the collection's pchannels with the vchannel in the property
		_ = p.stream(pch).Produce(context.Background(), &msgstream.MsgPack{Msgs: []msgstream.TsMsg{m}})
	}
}

func (p *producer) close() {
	for _, s := range p.streams {
		s.Close()
	}
}

var collSeq int64 = 100

// addSourceCollection writes a Created collection (with default partition and fields) into the source catalog. Its start
// positions point at the current end of its pchannels. downstream: also create the same-named collection in the fake target.
func (w *world) addSourceCollection(t fatalfer, db, name string, shards int, downstream *milvus.Server) *srcColl {
	collSeq++
	c := &srcColl{id: collSeq*10 + w.id*100000, db: db, name: name, shards: shards, dbID: 1}
	if db != "default" {
		c.dbID = 2 + int64(len(db)) // distinct small ids per database name used in the tests
		if err := w.cat.PutDatabase(c.dbID, db, false); err != nil {
			t.Fatalf("VERIF-TROUBLE: %v", err)
		}
	}
	c.partID = c.id + 1
	c.create = tsoutil.ComposeTS(time.Now().Add(-2*time.Hour).UnixMilli(), 0)
	var starts []*commonpb.KeyDataPair
	for i := 0; i < shards; i++ {
		pch := fmt.Sprintf("%s-dml_%d", w.srcRoot, i)
		c.pch = append(c.pch, pch)
		c.vch = append(c.vch, fmt.Sprintf("%s_%dv%d", pch, c.id, i))
		starts = append(starts, &commonpb.KeyDataPair{Key: pch, Data: mq.ID(uint64(w.broker.Len(pch))).Serialize()})
	}
	if err := w.cat.PutFields(c.id); err != nil {
		t.Fatalf("VERIF-TROUBLE: %v", err)
	}
	if err := w.cat.PutPartition(c.id, c.partID, &pb.PartitionInfo{PartitionID: c.partID, PartitionName: "_default", CollectionId: c.id, PartitionCreatedTimestamp: c.create, State: pb.PartitionState_PartitionCreated}); err != nil {
		t.Fatalf("VERIF-TROUBLE: %v", err)
	}
	if downstream != nil {
		downstream.AddCollection(db, name, shards)
	}
	info := &pb.CollectionInfo{ID: c.id, DbId: c.dbID, CreateTime: c.create, ShardsNum: int32(shards), State: pb.CollectionState_CollectionCreated,
		Schema: &schemapb.CollectionSchema{Name: name}, VirtualChannelNames: c.vch, PhysicalChannelNames: c.pch, StartPositions: starts}
	if err := w.cat.PutCollection(c.dbID, c.id, info); err != nil {
		t.Fatalf("VERIF-TROUBLE: %v", err)
	}
	c.info = info
	return c
}

// markDropped rewrites the catalog record of the collection in the given state (what the source root coord does around the
// drop-collection message: Dropping before the broadcast, Dropped after it).
func (w *world) markCollectionState(t fatalfer, c *srcColl, state pb.CollectionState) {
	info := proto.Clone(c.info).(*pb.CollectionInfo)
	info.State = state
	if err := w.cat.PutCollection(c.dbID, c.id, info); err != nil {
		t.Fatalf("VERIF-TROUBLE: %v", err)
	}
}

// acceptedRows returns row id -> number of accepted ReplicateMessage packs that carried it (inserts only).
func acceptedRows(s *milvus.Server) map[int64]int {
	out := map[int64]int{}
	for _, p := range s.Packs() {
		if !p.Accepted {
			continue
		}
		for _, m := range p.Msgs {
			if m.Type == commonpb.MsgType_Insert {
				for _, r := range m.RowIDs {
					out[r]++
				}
			}
		}
	}
	return out
}

func waitFor(cap time.Duration, cond func() bool) bool {
	deadline := time.Now().Add(cap)
	for time.Now().Before(deadline) {
		if cond() {
			return true
		}
		time.Sleep(5 * time.Millisecond)
	}
	return cond()
}

func sortedKeys(m map[int64]int) []int64 {
	var k []int64
	for x := range m {
		k = append(k, x)
	}
	sort.Slice(k, func(i, j int) bool { return k[i] < k[j] })
	return k
}
