package hserver

// Deterministic demonstrations of the open known findings of the server-level properties (see /verif/known_findings.json).
// Each prints FINDING-PRESENT <id> or FINDING-ABSENT <id>; the driver turns the former into a KNOWN-FINDING line.

import (
	"sync/atomic"
	"fmt"
	"testing"
	"time"

	"github.com/zilliztech/milvus-cdc/server/model/meta"

	"verifharness/quiesce"
)

type plainT struct{ *testing.T }

func (p plainT) Fatalf(f string, a ...any) { p.T.Fatalf(f, a...) }
func (p plainT) Logf(f string, a ...any)   { p.T.Logf(f, a...) }

// F-C05-resume-without-checkpoint: a source channel of a task that has no persisted checkpoint yet (the task was created
// without positions and the first checkpoint write of that channel was rejected by the store, or the process stopped before
// it) is opened at the LATEST position again when the task is resumed / reloaded. Everything written to the channel in
// between - also rows the first incarnation had read but not acknowledged - is never read: the rows are lost and the next
// checkpoint of the channel lies beyond them.
// History: create(ca) ; row on shard 1 acknowledged ; first checkpoint write of src-dml_1 rejected -> Paused ; row R on shard 1 ;
// resume ; row R2 on shard 1 -> R2 arrives, R never does.
func TestFinding_C05_ResumeWithoutCheckpoint(tt *testing.T) {
	const id = "F-C05-resume-without-checkpoint"
	t := plainT{tt}
	w := newWorld(t, worldOpt{targets: 1, packerMax: 1})
	defer w.close(t)
	p := w.newProducer()
	defer p.close()
	tgt := w.targets[0]
	c := w.addSourceCollection(t, "default", "ca", 2, tgt)
	pchs := []string{c.pch[0], c.pch[1]}
	for _, pc := range pchs {
		p.tick(pc, 10)
	}
	inc := w.prepare(t)
	// the store rejects every checkpoint write which carries a position of the second source channel
	inc.store.setHook(func(op *storeOp) error {
		if pos, ok := op.Obj.(*meta.TaskCollectionPosition); ok && op.Kind == "pos.put" {
			if _, has := pos.Positions[c.pch[1]]; has {
				return fmt.Errorf("injected: store rejects the checkpoint")
			}
		}
		return nil
	})
	r := inc.post(t, "create", map[string]any{"milvus_connect_param": map[string]any{"uri": w.uris[0], "connect_timeout": 3},
		"collection_infos": []any{map[string]any{"name": "ca"}}})
	if r.Code != 200 {
		t.Fatalf("VERIF-TROUBLE: create failed: %s", r.Raw)
	}
	task, _ := r.Data["task_id"].(string)
	arrived := func(row int64) func() bool { return func() bool { return acceptedRows(tgt)[row] > 0 } }
	paused := func() bool { s, _ := taskView(w, t, task); return s == "Paused" }
	// rows on shard 1 until one is acknowledged (the stream opens at the latest position, asynchronously)
	flowing := false
	for i := 0; i < 8 && !flowing && !paused(); i++ {
		row := p.insert(c, 1, 1, 3)[0]
		flowing = waitTicking(p, pchs, 3*time.Second, func() bool { return arrived(row)() || paused() })
	}
	if !waitTicking(p, pchs, 10*time.Second, paused) {
		t.Fatalf("VERIF-TROUBLE %s: the task did not pause after the rejected checkpoint write", id)
	}
	for _, pos := range w.listPositions(t, task) {
		if _, has := pos.Positions[c.pch[1]]; has {
			t.Fatalf("VERIF-TROUBLE %s: a checkpoint of %s exists", id, c.pch[1])
		}
	}
	quiesce.WaitStable(func() int { return tgt.NumCalls() }, 3*time.Second)
	lost := p.insert(c, 1, 1, 3)[0] // written while the task is paused
	for k := 0; k < 3; k++ {
		p.tick(c.pch[1], 2)
	}
	inc.store.setHook(nil)
	if rr := inc.post(t, "resume", map[string]any{"task_id": task}); rr.Code != 200 {
		t.Fatalf("VERIF-TROUBLE %s: resume failed: %s", id, rr.Raw)
	}
	// a later row proves that the stream flows again
	again := false
	for i := 0; i < 8 && !again; i++ {
		row := p.insert(c, 1, 1, 3)[0]
		again = waitTicking(p, pchs, 3*time.Second, arrived(row))
	}
	if !again {
		t.Fatalf("VERIF-TROUBLE %s: the stream did not flow again after resume", id)
	}
	waitTicking(p, pchs, 3*time.Second, arrived(lost))
	if arrived(lost)() {
		fmt.Println("FINDING-ABSENT " + id)
	} else {
		fmt.Printf("row %d written to %s while the task was paused never reached the downstream; later rows did\n", lost, c.vch[1])
		fmt.Println("FINDING-PRESENT " + id)
	}
}

// F-C05-resume-overtaken-by-stale-pause: the final flush of the incarnation stopped by a pause writes a checkpoint; the store
// rejects it after the task has been resumed; the "automatic" pause that follows stops the readers the resume has just started,
// while the state written last is Running. Rows written afterwards are not replicated although the task reports Running.
func TestFinding_C05_ResumeOvertakenByStalePause(tt *testing.T) {
	const id = "F-C05-resume-overtaken-by-stale-pause"
	t := plainT{tt}
	w := newWorld(t, worldOpt{targets: 1, packerMax: 1})
	defer w.close(t)
	p := w.newProducer()
	defer p.close()
	tgt := w.targets[0]
	c := w.addSourceCollection(t, "default", "ca", 2, tgt)
	pchs := []string{c.pch[0], c.pch[1]}
	for _, pc := range pchs {
		p.tick(pc, 10)
	}
	inc := w.prepare(t)
	r := inc.post(t, "create", map[string]any{"milvus_connect_param": map[string]any{"uri": w.uris[0], "connect_timeout": 3},
		"collection_infos": []any{map[string]any{"name": "ca"}}})
	if r.Code != 200 {
		t.Fatalf("VERIF-TROUBLE: create failed: %s", r.Raw)
	}
	task, _ := r.Data["task_id"].(string)
	arrived := func(rows []int64) func() bool {
		return func() bool {
			acc := acceptedRows(tgt)
			for _, r := range rows {
				if acc[r] == 0 {
					return false
				}
			}
			return true
		}
	}
	flowing := false
	for i := 0; i < 6 && !flowing; i++ {
		rows := append(p.insert(c, 0, 1, 3), p.insert(c, 1, 1, 3)...)
		flowing = waitTicking(p, pchs, 5*time.Second, arrived(rows))
	}
	if !flowing {
		t.Fatalf("VERIF-TROUBLE %s: replication did not start", id)
	}
	quiesce.WaitStable(func() int { return tgt.NumCalls() }, 4*time.Second)
	// the race is not owned by the harness: a few attempts of "checkpoint writes are rejected, pause, resume at once"
	for attempt := 0; attempt < 8; attempt++ {
		var armed atomic.Bool
		armed.Store(true)
		inc.store.setHook(func(op *storeOp) error {
			if op.Kind == "pos.put" && armed.Load() {
				return fmt.Errorf("injected: store rejects the checkpoint")
			}
			return nil
		})
		go func() { p.insert(c, 0, 1, 3); p.tick(c.pch[0], 2); p.tick(c.pch[1], 2) }()
		if attempt%2 == 1 {
			time.Sleep(time.Duration(attempt) * time.Millisecond)
		}
		inc.post(t, "pause", map[string]any{"task_id": task})
		inc.post(t, "resume", map[string]any{"task_id": task})
		quiesce.WaitStable(func() int { return tgt.NumCalls() }, 4*time.Second)
		armed.Store(false)
		quiesce.WaitStable(func() int { return tgt.NumCalls() }, 4*time.Second)
		state, _ := taskView(w, t, task)
		if state == "Running" {
			rows := append(p.insert(c, 0, 1, 3), p.insert(c, 1, 1, 3)...)
			if !waitTicking(p, pchs, 6*time.Second, arrived(rows)) {
				if s2, _ := taskView(w, t, task); s2 == "Running" {
					fmt.Printf("FINDING-PRESENT %s (attempt %d: task reports Running, rows written after the resume are not replicated)\n", id, attempt)
					return
				}
			}
		}
		// back to a running task for the next attempt
		for k := 0; k < 3; k++ {
			if s3, _ := taskView(w, t, task); s3 == "Running" {
				break
			}
			quiesce.WaitStable(func() int { return tgt.NumCalls() }, 4*time.Second)
			inc.post(t, "resume", map[string]any{"task_id": task})
		}
	}
	fmt.Printf("FINDING-ABSENT %s (the schedule did not occur in 8 attempts)\n", id)
}
