package hserver

import (
	"os"
	"strings"
	"testing"

	deadlock "github.com/sasha-s/go-deadlock"
	"go.uber.org/zap/zapcore"

	"github.com/zilliztech/milvus-cdc/core/config"
	"github.com/zilliztech/milvus-cdc/core/log"
	"github.com/zilliztech/milvus-cdc/core/util"
	"github.com/zilliztech/milvus-cdc/server/maintenance"

	"verifharness/fakes/etcdsrv"
	"verifharness/stats"
)

func TestMain(m *testing.M) {
	setupLogCapture()
	log.SetLevel(zapcore.FatalLevel)
	baseLevel = zapcore.FatalLevel
	if lv := os.Getenv("VERIF_LOGLEVEL"); lv != "" { // debugging aid
		if l, err := zapcore.ParseLevel(lv); err == nil {
			log.SetLevel(l)
			baseLevel = l
		}
	}
	util.InitMilvusPkgParam()
	deadlock.Opts.Disable = true // see hreader/main_test.go: goid returns a constant under Go 1.23
	// what CDCServer.Run does with the configured retry settings (process-wide, once)
	config.InitCommonConfig(func(c *config.CommonConfig) {
		c.Retry = config.RetrySettings{RetryTimes: 2, InitBackOff: 1, MaxBackOff: 1}
	})
	maintenance.InitMsgLog() // CDCServer.Run does this before serving
	stats.Main(func() int {
		code := m.Run()
		etcdsrv.Stop()
		return code
	})
}

var baseLevel zapcore.Level

func known(id string) bool {
	for _, k := range strings.Split(os.Getenv("VERIF_KNOWN"), ",") {
		if k == id {
			return true
		}
	}
	return false
}
