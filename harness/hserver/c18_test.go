package hserver

// C18 — credentials never appear in API responses or logs.
//
// Every secret of a create request is a unique canary. The service logs at debug level into the capture file (see
// logcap_test.go: everything core/log writes, plus stderr of linked libraries). After every API call, injected failure and
// restart the HTTP answer and everything logged since the previous step are searched for every canary (raw and base64 forms).

import (
	"encoding/json"
	"encoding/base64"
	"fmt"
	"strings"
	"sync/atomic"
	"testing"
	"time"

	"go.uber.org/zap/zapcore"
	"pgregory.net/rapid"

	"github.com/zilliztech/milvus-cdc/core/log"

	"verifharness/stats"
)

type secret struct {
	field string
	value string
}

func secretForms(s secret) []string {
	forms := []string{s.value, base64.StdEncoding.EncodeToString([]byte(s.value))}
	return forms
}

func c18Body(t *rapid.T) {
	st := stats.New("C18")
	w := newWorld(t, worldOpt{targets: 1, maxTasks: 6})
	defer func() {
		log.SetLevel(zapcore.FatalLevel)
		w.close(t)
	}()
	w.start(t, false)
	log.SetLevel(zapcore.DebugLevel)
	var secrets []secret
	var hist []string
	nsec := 0
	newSecret := func(field string) string {
		nsec++
		v := fmt.Sprintf("ZQ%sw%dn%dXW", field, w.id, nsec)
		secrets = append(secrets, secret{field, v})
		return v
	}
	mark := logMark()
	failurePaths, kafkaTasks := 0, 0

	scan := func(where string, body string) {
		time.Sleep(2 * time.Millisecond) // let asynchronous log lines of the step land
		logged := string(logSince(mark))
		mark = logMark()
		for _, s := range secrets {
			for _, f := range secretForms(s) {
				if strings.Contains(body, f) {
					t.Fatalf("VERIF-VIOLATION C18: secret %s (%s) appears in the response of %s: %s\nhistory: %v", s.field, f, where, trunc(body, 600), hist)
				}
				if i := strings.Index(logged, f); i >= 0 {
					ls := strings.LastIndex(logged[:i], "\n") + 1
					le := strings.Index(logged[i:], "\n")
					if le < 0 {
						le = len(logged) - i
					}
					t.Fatalf("VERIF-VIOLATION C18: secret %s (%s) was written to the log during %s:\n%s\nhistory: %v", s.field, f, where, trunc(logged[ls:i+le], 900), hist)
				}
			}
		}
		st.Count("scans", 1)
		st.Count("log_bytes_scanned", len(logged))
	}

	type task struct {
		id    string
		label string
		kafka bool
	}
	var tasks []task
	ntask := 0
	crossCreds := 0
	nOverlap := 0

	create := func(t *rapid.T, mode string) {
		req := map[string]any{}
		coll := rapid.SampledFrom([]string{"c1", "c2", "c3", "*"}).Draw(t, "coll")
		req["collection_infos"] = []any{map[string]any{"name": coll}}
		cred := rapid.SampledFrom([]string{"userpw", "token", "both", "kafka"}).Draw(t, "cred")
		if cred == "kafka" && kafkaTasks >= 1 {
			cred = "token"
		}
		uri := w.uris[0]
		if mode == "unreachable" {
			uri = "http://127.0.0.1:1"
		}
		switch cred {
		case "userpw":
			req["milvus_connect_param"] = map[string]any{"uri": uri, "username": "root", "password": newSecret("milvuspw"), "connect_timeout": 1}
		case "token":
			req["milvus_connect_param"] = map[string]any{"uri": uri, "token": "root:" + newSecret("milvustoken"), "connect_timeout": 1}
		case "both":
			req["milvus_connect_param"] = map[string]any{"uri": uri, "username": "root", "password": newSecret("milvuspw"), "token": newSecret("milvustoken"), "connect_timeout": 1}
		case "kafka":
			req["kafka_connect_param"] = map[string]any{"address": "127.0.0.1:9", "topic": "cdc", "enable_sasl": true,
				"sasl": map[string]any{"username": newSecret("sasluser"), "password": newSecret("saslpw"), "mechanisms": "PLAIN", "security_protocol": "SASL_PLAINTEXT"}}
		}
		// the request may also carry credentials in the connect param of the OTHER kind of downstream (no address there, so the
		// kind of the task does not change): they are secrets of the request like the others
		cross := rapid.IntRange(0, 3).Draw(t, "crossCredentials") == 0
		if cross {
			if cred == "kafka" {
				req["milvus_connect_param"] = map[string]any{"username": "root", "password": newSecret("xmilvuspw"), "token": newSecret("xmilvustoken")}
			} else {
				req["kafka_connect_param"] = map[string]any{"enable_sasl": true,
					"sasl": map[string]any{"username": newSecret("xsasluser"), "password": newSecret("xsaslpw"), "mechanisms": "PLAIN", "security_protocol": "SASL_PLAINTEXT"}}
			}
			crossCreds++
		}
		if mode == "invalid" { // rejected by validation after the secrets were decoded
			req["buffer_config"] = map[string]any{"period": -1}
		}
		if mode == "storefail" {
			kind := rapid.SampledFrom([]string{"info.get", "info.put", "pos.get", "pos.put"}).Draw(t, "failAt")
			var n atomic.Int32
			skip := int32(rapid.IntRange(0, 1).Draw(t, "skip"))
			w.inc.store.setHook(func(op *storeOp) error {
				if op.Kind == kind && n.Add(1) == skip+1 {
					return fmt.Errorf("injected store failure")
				}
				return nil
			})
		}
		r := w.inc.post(t, "create", req)
		w.inc.store.setHook(nil)
		desc := fmt.Sprintf("create(%s,%s,%s)->%d", mode, cred, coll, r.Code)
		hist = append(hist, desc)
		if r.Code == 200 {
			if id, _ := r.Data["task_id"].(string); id != "" {
				ntask++
				tasks = append(tasks, task{id: id, label: fmt.Sprintf("T%d", ntask), kafka: cred == "kafka"})
				if cred == "kafka" {
					kafkaTasks++
				}
			}
		} else {
			failurePaths++
		}
		scan(desc, r.Raw)
	}

	pick := func(t *rapid.T) (task, bool) {
		if len(tasks) == 0 {
			return task{}, false
		}
		return tasks[rapid.IntRange(0, len(tasks)-1).Draw(t, "task")], true
	}

	t.Repeat(map[string]func(*rapid.T){
		"create": func(t *rapid.T) {
			create(t, rapid.SampledFrom([]string{"ok", "ok", "ok", "invalid", "storefail", "storefail"}).Draw(t, "mode"))
		},
		"createUnreachable": func(t *rapid.T) {
			if failurePaths > 3 {
				t.Skip("enough slow failures")
			}
			create(t, "unreachable")
		},
		"read": func(t *rapid.T) {
			ta, ok := pick(t)
			typ := rapid.SampledFrom([]string{"get", "list", "position"}).Draw(t, "typ")
			if !ok && typ != "list" {
				t.Skip("no task")
			}
			r := w.inc.post(t, typ, map[string]any{"task_id": ta.id})
			hist = append(hist, fmt.Sprintf("%s(%s)->%d", typ, ta.label, r.Code))
			scan(typ, r.Raw)
		},
		"pauseResume": func(t *rapid.T) {
			ta, ok := pick(t)
			if !ok {
				t.Skip("no task")
			}
			typ := rapid.SampledFrom([]string{"pause", "resume"}).Draw(t, "typ")
			withFail := rapid.IntRange(0, 2).Draw(t, "fail") == 0
			if withFail {
				var n atomic.Int32
				w.inc.store.setHook(func(op *storeOp) error {
					if (op.Kind == "info.get" || op.Kind == "info.put" || op.Kind == "pos.get") && n.Add(1) == 1 {
						return fmt.Errorf("injected store failure")
					}
					return nil
				})
			}
			r := w.inc.post(t, typ, map[string]any{"task_id": ta.id})
			w.inc.store.setHook(nil)
			if r.Code != 200 {
				failurePaths++
			}
			hist = append(hist, fmt.Sprintf("%s(%s,fail=%v)->%d", typ, ta.label, withFail, r.Code))
			scan(typ, r.Raw)
		},
		"overlappingRequests": func(t *rapid.T) {
			// the same pause / resume request twice, the second one handled after the first has saved the new state but before it
			// has finished: the second meets a persisted state it does not expect (a failure path that reports on the task record)
			ta, ok := pick(t)
			if !ok || nOverlap >= 2 {
				t.Skip("no task")
			}
			typ := rapid.SampledFrom([]string{"pause", "resume"}).Draw(t, "typ")
			saved := make(chan struct{})
			var n atomic.Int32
			w.inc.store.setAfter(func(op *storeOp) {
				if op.Kind == "info.put" && n.Add(1) == 1 {
					close(saved)
					time.Sleep(150 * time.Millisecond) // schedule aid: the first request stays between saving and finishing
				}
			})
			first := make(chan resp, 1)
			body, _ := json.Marshal(map[string]any{"request_type": typ, "request_data": map[string]any{"task_id": ta.id}})
			go func() {
				r, _ := w.inc.postRaw("POST", body)
				first <- r
			}()
			var second resp
			select {
			case <-saved:
				second, _ = w.inc.postRaw("POST", body)
			case r1 := <-first:
				// the first request did not save anything (it was not legal in the task's state): nothing overlaps
				first <- r1
			}
			r1 := <-first
			w.inc.store.setAfter(nil)
			nOverlap++
			if second.Code != 0 && second.Code != 200 {
				failurePaths++
			}
			hist = append(hist, fmt.Sprintf("%s(%s) twice overlapping ->%d,%d", typ, ta.label, r1.Code, second.Code))
			scan(typ+" (first of two overlapping)", r1.Raw)
			scan(typ+" (second of two overlapping)", second.Raw)
		},
		"delete": func(t *rapid.T) {
			ta, ok := pick(t)
			if !ok {
				t.Skip("no task")
			}
			r := w.inc.post(t, "delete", map[string]any{"task_id": ta.id})
			hist = append(hist, fmt.Sprintf("delete(%s)->%d", ta.label, r.Code))
			if r.Code == 200 {
				for i := range tasks {
					if tasks[i].id == ta.id {
						tasks = append(tasks[:i], tasks[i+1:]...)
						break
					}
				}
			}
			scan("delete", r.Raw)
		},
		"restart": func(t *rapid.T) {
			if len(tasks) == 0 || w.nInc >= 3 {
				t.Skip("nothing to reload")
			}
			// a reload during which the downstream is unreachable / the store fails exercises the failure path of start
			mode := rapid.SampledFrom([]string{"clean", "storefail", "targetdown"}).Draw(t, "mode")
			w.inc.kill()
			if mode == "targetdown" {
				w.targets[0].Before = func(*milvusCallCtx) error { return fmt.Errorf("injected downstream failure") }
			}
			inc := w.prepare(t)
			if mode == "storefail" {
				var n atomic.Int32
				inc.store.setHook(func(op *storeOp) error {
					if op.Kind == "pos.get" && n.Add(1) == 1 {
						return fmt.Errorf("injected store failure")
					}
					return nil
				})
			}
			inc.cdc.ReloadTask()
			inc.store.setHook(nil)
			w.targets[0].Before = nil
			if mode != "clean" {
				failurePaths++
			}
			hist = append(hist, "restart("+mode+")")
			scan("restart", "")
		},
	})
	st.ClassIf(failurePaths > 0, "failure_path_after_secrets_accepted")
	st.ClassIf(kafkaTasks > 0, "kafka_target")
	st.ClassIf(crossCreds > 0, "credentials_in_the_other_connect_param")
	st.ClassIf(nOverlap > 0, "overlapping_pause_or_resume_requests")
	st.ClassIf(w.nInc > 1, "restart")
	st.Count("secrets", len(secrets))
	st.NonTrivial(failurePaths > 0 && len(secrets) > 0)
	st.Fingerprint(strings.Join(hist, ";"))
	st.Sample(hist)
	st.Done()
	logTruncate()
}

func TestC18(t *testing.T) {
	if capFile == nil {
		t.Fatalf("VERIF-TROUBLE: log capture is not active")
	}
	rapid.Check(t, c18Body)
}
