package hserver

import (
	"os"
	"sync"
	"syscall"
)

// Log capture: core/log writes through zap to the *os.File that was os.Stdout at package init (fd 1) and to
// /tmp/cdc_log/cdc.log. TestMain re-points fd 1 (and fd 2, for libraries that write there) to a capture file and
// gives the testing framework a duplicate of the original stdout, so everything the service logs - and nothing the
// test framework prints - lands in the capture file.
var (
	capMu   sync.Mutex
	capFile *os.File
	capPath string
)

func setupLogCapture() {
	if os.Getenv("VERIF_NO_LOGCAP") != "" {
		return
	}
	// the driver names the file (VERIF_LOGCAP_FILE) so that it can read the panic message of a service that killed the process:
	// the Go runtime writes it to fd 2, which is captured too
	var f *os.File
	var err error
	keep := os.Getenv("VERIF_LOGCAP_FILE")
	if keep != "" {
		f, err = os.Create(keep)
	} else {
		f, err = os.CreateTemp("", "verif-logcap-*.log")
	}
	if err != nil {
		return
	}
	orig, err := syscall.Dup(1)
	if err != nil {
		return
	}
	origErr, err := syscall.Dup(2)
	if err != nil {
		return
	}
	os.Stdout = os.NewFile(uintptr(orig), "/dev/stdout")
	os.Stderr = os.NewFile(uintptr(origErr), "/dev/stderr")
	_ = syscall.Dup2(int(f.Fd()), 1)
	_ = syscall.Dup2(int(f.Fd()), 2)
	capFile, capPath = f, f.Name()
	if keep == "" {
		_ = os.Remove(capPath) // keep the inode only: nothing is left behind when the process ends
	}
}

// logMark returns the current size of the capture file.
func logMark() int64 {
	if capFile == nil {
		return 0
	}
	st, err := capFile.Stat()
	if err != nil {
		return 0
	}
	return st.Size()
}

// logSince returns what the service logged since the mark.
func logSince(mark int64) []byte {
	if capFile == nil {
		return nil
	}
	st, err := capFile.Stat()
	if err != nil || st.Size() <= mark {
		return nil
	}
	b := make([]byte, st.Size()-mark)
	n, _ := capFile.ReadAt(b, mark)
	return b[:n]
}

// logTruncate drops the captured output (between cases, to bound disk use).
func logTruncate() {
	if capFile != nil {
		_ = capFile.Truncate(0)
		_, _ = capFile.Seek(0, 0)
	}
}
