package hserver

// C14 at the level of the service: "... or when the channel shuts down ... The global buffered-bytes counter returns to zero
// whenever all batchers are empty."  hpure/TestC14 drives the Packer alone; the shutdown flush, however, is issued by the loop in
// cdc_impl.go (startReplicateDMLMsg) that owns the batcher. Here the real service replicates rows with a batcher that holds packs
// back (large count threshold, 5 s age threshold, no further traffic), then the channel is shut down by a drawn request (pause or
// delete of the task). Oracle: once the service is at rest and no task runs, the global counter (hook MemoryCurrentForVerif) is
// zero again, and the rows the batcher held were handed to the downstream write callback (they appear at the fake downstream,
// accepted or not) at most once per incarnation. Non-trivial = the batcher held bytes when the shutdown was requested.

import (
	"fmt"
	"testing"
	"time"

	"pgregory.net/rapid"

	"github.com/zilliztech/milvus-cdc/server/msgpacker"

	"verifharness/quiesce"
	"verifharness/stats"
)

func c14ServiceBody(t *rapid.T) {
	st := stats.New("C14")
	msgpacker.ResetMemoryForVerif()
	packerMax := rapid.SampledFrom([]int{40, 60}).Draw(t, "packerMax")
	w := newWorld(t, worldOpt{targets: 1, packerMax: packerMax})
	defer w.close(t)
	p := w.newProducer()
	defer p.close()
	tgt := w.targets[0]
	cA := w.addSourceCollection(t, "default", "ca", 2, tgt)
	pchs := []string{cA.pch[0], cA.pch[1]}
	for _, pc := range pchs {
		p.tick(pc, 10)
	}
	w.prepare(t)
	r := w.inc.post(t, "create", map[string]any{"milvus_connect_param": map[string]any{"uri": w.uris[0], "connect_timeout": 3},
		"collection_infos": []any{map[string]any{"name": "ca"}}})
	if r.Code != 200 {
		t.Fatalf("VERIF-TROUBLE: create failed: %s", r.Raw)
	}
	id, _ := r.Data["task_id"].(string)
	arrived := func(rows []int64) func() bool {
		return func() bool {
			acc := acceptedRows(tgt)
			for _, r := range rows {
				if acc[r] == 0 {
					return false
				}
			}
			return true
		}
	}
	// warm up: until both streams flow (ticks are packs too, so the count threshold is reached quickly while ticking)
	flowing := false
	for attempt := 0; attempt < 5 && !flowing; attempt++ {
		var rows []int64
		for s := 0; s < 2; s++ {
			rows = append(rows, p.insert(cA, s, 1, 3)...)
		}
		flowing = waitTicking(p, pchs, 5*time.Second, arrived(rows))
	}
	if !flowing {
		t.Fatalf("VERIF-TROUBLE: replication did not start")
	}
	quiesce.WaitStable(func() int { return tgt.NumCalls() }, 4*time.Second)

	// rows without further traffic: they stay in the batchers (below the count threshold, younger than the age threshold)
	n := rapid.IntRange(1, 5).Draw(t, "rows")
	var rows []int64
	for j := 0; j < n; j++ {
		rows = append(rows, p.insert(cA, rapid.IntRange(0, 1).Draw(t, "shard"), 1, uint64(rapid.IntRange(1, 4).Draw(t, "dt")))...)
	}
	if rapid.Bool().Draw(t, "tickAfterRows") {
		for _, pc := range pchs {
			p.tick(pc, 2)
		}
	}
	quiesce.WaitStable(func() int { return tgt.NumCalls() }, 4*time.Second)
	held := msgpacker.MemoryCurrentForVerif()
	how := rapid.SampledFrom([]string{"pause", "delete", "pause+delete"}).Draw(t, "shutdownBy")
	if how != "delete" {
		if r := w.inc.post(t, "pause", map[string]any{"task_id": id}); r.Code != 200 {
			t.Fatalf("VERIF-TROUBLE: pause failed: %s", r.Raw)
		}
	}
	if how != "pause" {
		quiesce.WaitStable(func() int { return tgt.NumCalls() }, 4*time.Second)
		if r := w.inc.post(t, "delete", map[string]any{"task_id": id}); r.Code != 200 {
			t.Fatalf("VERIF-TROUBLE: delete failed: %s", r.Raw)
		}
	}
	if busy, quiet := quiesce.WaitStable(func() int { return tgt.NumCalls() }, 8*time.Second); !quiet {
		st.Count("inconclusive_not_at_rest", 1)
		_ = busy
	} else if cur := msgpacker.MemoryCurrentForVerif(); cur != 0 {
		t.Fatalf("VERIF-VIOLATION C14 (service level): the only task was shut down by %s and the service is at rest, no batcher holds anything, but the global buffered-bytes counter is %d (the batchers held %d bytes when the shutdown was requested; %d rows fed without further traffic, count threshold %d)",
			how, cur, held, n, packerMax)
	}
	// every row handed to the batcher reached the write callback at most once (the callback's request is seen downstream)
	seen := map[int64]int{}
	for _, pk := range tgt.Packs() {
		for _, m := range pk.Msgs {
			for _, rid := range m.RowIDs {
				seen[rid]++
			}
		}
	}
	for _, rid := range rows {
		if seen[rid] > 1 {
			t.Fatalf("VERIF-VIOLATION C14 (service level): row %d was passed to the downstream write callback %d times within one incarnation of the channel (shutdown by %s)", rid, seen[rid], how)
		}
	}
	st.Class("service-level:shutdown-by-" + how)
	st.ClassIf(held > 0, "service-level:batcher-held-bytes-at-shutdown")
	st.Count("service_level_bytes_held_at_shutdown", held)
	st.NonTrivial(held > 0)
	st.Fingerprint(fmt.Sprintf("svc/%d/%d/%s/%d", packerMax, n, how, held))
	st.Sample(map[string]any{"service_level": true, "count_threshold": packerMax, "rows_without_traffic": n, "shutdown_by": how, "bytes_held": held})
	st.Done()
}

func TestC14_Service(t *testing.T) { rapid.Check(t, c14ServiceBody) }
