package hserver

// C06 — a replication failure pauses exactly the failing task, never crashes the service.
//
// Two tasks A and B (same target sharing the physical channels, or different targets) replicate one collection each. After some
// acknowledged traffic a fault of a drawn class hits task A at a drawn position (once or persistently): the downstream rejects
// the write of A's pack, the store rejects A's checkpoint, or A's rows go to a partition the downstream does not have.
// Oracle after the system came to rest:
//   - the process is alive (a panic of the service kills the test binary: the driver reports it);
//   - A is Paused with a non-empty reason in get and list; nothing of A is accepted downstream after the failing pack;
//     A's persisted checkpoint does not lie behind... precisely: it names no pack beyond the last acknowledged one;
//   - B is Running with empty reason, and every row produced for B arrives (also rows produced after A failed);
//   - the failing rows of A are not skipped: after the fault is cleared and A is resumed they arrive.

import (
	"fmt"
	"os"
	"strings"
	"sync/atomic"
	"testing"
	"time"

	"pgregory.net/rapid"

	"github.com/milvus-io/milvus-proto/go-api/v2/commonpb"
	"github.com/milvus-io/milvus-proto/go-api/v2/milvuspb"

	"verifharness/fakes/milvus"
	"verifharness/fakes/mq"
	"verifharness/quiesce"
	"verifharness/stats"
)

func waitTicking(p *producer, pchs []string, cap time.Duration, cond func() bool) bool {
	deadline := time.Now().Add(cap)
	for time.Now().Before(deadline) {
		if cond() {
			return true
		}
		for _, pc := range pchs {
			p.tick(pc, 2)
		}
		time.Sleep(15 * time.Millisecond)
	}
	return cond()
}

func taskView(w *world, t fatalfer, id string) (state, reason string) {
	r := w.inc.post(t, "get", map[string]any{"task_id": id})
	if tk, ok := r.Data["task"].(map[string]any); ok {
		state, _ = tk["state"].(string)
		reason, _ = tk["reason"].(string)
	}
	return
}

func c06Body(t *rapid.T) {
	st := stats.New("C06")
	sameTarget := rapid.Bool().Draw(t, "sameTarget")
	packerMax := rapid.SampledFrom([]int{1, 1, 2, 3}).Draw(t, "packerMax")
	class := rapid.SampledFrom([]string{"write_rejected", "write_rejected", "checkpoint_rejected", "unknown_partition", "ddl_rejected", "ddl_rejected", "start_rejected"}).Draw(t, "class")
	persistent := rapid.Bool().Draw(t, "persistent")
	if class == "ddl_rejected" && !persistent {
		// a single rejected DDL is usually absorbed by the writer's retry; the persistent form is the one that pauses the task
		persistent = rapid.Bool().Draw(t, "persistentDDL")
	}
	if v := os.Getenv("VERIF_C06_CLASS"); v != "" { // debugging aid
		class = v
	}
	w := newWorld(t, worldOpt{targets: 2, packerMax: packerMax})
	defer w.close(t)
	w.start(t, false)
	p := w.newProducer()
	defer p.close()
	ta, tb := 0, 1
	if sameTarget {
		tb = 0
	}
	cA := w.addSourceCollection(t, "default", "ca", 1, w.targets[ta])
	cB := w.addSourceCollection(t, "default", "cb", 1, w.targets[tb])
	pchs := []string{cA.pch[0]}
	p.tick(pchs[0], 10)
	mk := func(target int, name string) string {
		r := w.inc.post(t, "create", map[string]any{"milvus_connect_param": map[string]any{"uri": w.uris[target], "connect_timeout": 3},
			"collection_infos": []any{map[string]any{"name": name}}})
		if r.Code != 200 {
			t.Fatalf("VERIF-TROUBLE: create failed: %s", r.Raw)
		}
		id, _ := r.Data["task_id"].(string)
		return id
	}
	var idA, idB string
	if class == "ddl_rejected" {
		// A selects every collection of the database (minus cb when B owns it on the same target), so that a collection created
		// upstream while A runs belongs to A
		idB = mk(tb, "cb")
		idA = mk(ta, "*")
	} else {
		idA, idB = mk(ta, "ca"), mk(tb, "cb")
	}

	produce := func(c *srcColl, n int) []int64 {
		var rows []int64
		for i := 0; i < n; i++ {
			rows = append(rows, p.insert(c, 0, 1, 3)...)
			p.tick(pchs[0], 3)
		}
		return rows
	}
	arrivedAll := func(target int, rows []int64) func() bool {
		return func() bool {
			acc := acceptedRows(w.targets[target])
			for _, r := range rows {
				if acc[r] == 0 {
					return false
				}
			}
			return true
		}
	}
	// ---- phase 1: acknowledged traffic for both (streams are opened at the latest position asynchronously: produce until it flows)
	var okA, okB []int64
	flowing := false
	for attempt := 0; attempt < 4 && !flowing; attempt++ {
		okA, okB = produce(cA, 1), produce(cB, 1)
		flowing = waitTicking(p, pchs, 4*time.Second, func() bool { return arrivedAll(ta, okA)() && arrivedAll(tb, okB)() })
	}
	if !flowing {
		t.Fatalf("VERIF-TROUBLE: replication did not start")
	}
	pre := rapid.IntRange(0, 3).Draw(t, "ackedBefore")
	okA = append(okA, produce(cA, pre)...)
	okB = append(okB, produce(cB, pre)...)
	if !waitTicking(p, pchs, 8*time.Second, func() bool { return arrivedAll(ta, okA)() && arrivedAll(tb, okB)() }) {
		t.Fatalf("VERIF-TROUBLE: acknowledged phase did not complete")
	}

	// F-C05-resume-without-checkpoint (known finding, same root cause here): a channel without persisted checkpoint is reopened at
	// the latest position by the resume, which would lose the failing rows. While it is listed the fault is injected only once
	// both streams have their first checkpoint in the store (cases which had to wait for that are counted).
	excludedNoCheckpoint := 0
	if known("F-C05-resume-without-checkpoint") {
		checkpointed := func() bool {
			for id, c := range map[string]*srcColl{idA: cA, idB: cB} {
				found := false
				for _, pos := range w.listPositions(t, id) {
					if _, has := pos.Positions[c.pch[0]]; has && pos.CollectionID == c.id {
						found = true
					}
				}
				if !found {
					return false
				}
			}
			return true
		}
		if !checkpointed() {
			excludedNoCheckpoint = 1
			if !waitTicking(p, pchs, 10*time.Second, checkpointed) {
				t.Fatalf("VERIF-TROUBLE: no first checkpoint of both streams within 10 s")
			}
		}
	}

	// ---- phase 2: the fault
	// (a store that also rejects the state update of the automatic pause is a double fault outside the statement: not generated)
	var fired atomic.Int32
	var newColl *srcColl
	isA := func(pk *milvus.Pack) bool {
		for _, m := range pk.Msgs {
			if m.Type == commonpb.MsgType_Insert && m.Collection == "ca" {
				return true
			}
		}
		return false
	}
	switch class {
	case "write_rejected", "state_and_write_rejected":
		w.targets[ta].Before = func(cc *milvus.CallCtx) error {
			if cc.Method == "ReplicateMessage" && cc.Pack != nil && isA(cc.Pack) && (persistent || fired.Load() == 0) {
				fired.Add(1)
				return fmt.Errorf("injected: downstream rejects the write")
			}
			return nil
		}
		if class == "state_and_write_rejected" {
			// the store also rejects the state update of the automatic pause (once)
			var n atomic.Int32
			w.inc.store.setHook(func(op *storeOp) error {
				if op.Kind == "info.put" && op.Task == idA && n.Add(1) == 1 {
					return fmt.Errorf("injected: store rejects the state update")
				}
				return nil
			})
		}
	case "ddl_rejected":
		// a collection selected by A is created upstream while A runs; the downstream rejects its CreateCollection
		// the order of the two consequences is drawn: either the reader gives up looking for the new collection first, or (the
		// lookup of the new collection is held) the rejected DDL pauses the task first and the start of the collection fails
		// afterwards, on a task that has already been stopped
		holdLookup := persistent && rapid.Bool().Draw(t, "startFailsAfterThePause")
		var aPaused atomic.Bool
		var writerPeer atomic.Value
		writerPeer.Store("")
		if holdLookup {
			go func() {
				for i := 0; i < 400 && !aPaused.Load(); i++ {
					if s, _ := taskView(w, t, idA); s == "Paused" {
						aPaused.Store(true)
					}
					time.Sleep(25 * time.Millisecond)
				}
				aPaused.Store(true)
			}()
		}
		w.targets[ta].Before = func(cc *milvus.CallCtx) error {
			if r, ok := cc.Req.(*milvuspb.CreateCollectionRequest); ok && cc.Method == "CreateCollection" && r.GetCollectionName() == "cnew" && (persistent || fired.Load() == 0) {
				writerPeer.Store(cc.Peer)
				fired.Add(1)
				return fmt.Errorf("injected: downstream rejects the DDL")
			}
			// only the reader's lookups are held: the writer probes the collection before every attempt on its own connection
			if r, ok := cc.Req.(*milvuspb.DescribeCollectionRequest); ok && holdLookup && r.GetCollectionName() == "cnew" && fired.Load() > 0 && cc.Peer != writerPeer.Load() {
				for i := 0; i < 400 && !aPaused.Load(); i++ {
					time.Sleep(25 * time.Millisecond)
				}
			}
			return nil
		}
		newColl = w.addSourceCollection(t, "default", "cnew", 1, nil)
		if !waitTicking(p, pchs, 15*time.Second, func() bool { return fired.Load() > 0 }) {
			t.Fatalf("VERIF-TROUBLE C06: the create-collection DDL of the new collection never reached the downstream")
		}
	case "start_rejected":
		// the failure hits while the task (re)starts its collection: A is paused by request, the downstream refuses the lookup
		// of A's collection (not a "not found"), A is resumed: the collection cannot be started
		persistent = true
		if r := w.inc.post(t, "pause", map[string]any{"task_id": idA}); r.Code != 200 {
			t.Fatalf("VERIF-TROUBLE C06: pause of A failed: %s", r.Raw)
		}
		w.targets[ta].Before = func(cc *milvus.CallCtx) error {
			if r, ok := cc.Req.(*milvuspb.DescribeCollectionRequest); ok && r.GetCollectionName() == "ca" {
				fired.Add(1)
				return fmt.Errorf("injected: permission deny")
			}
			return nil
		}
		// (the answer of the resume request itself is not judged here: the start may fail inside or after it)
		w.inc.post(t, "resume", map[string]any{"task_id": idA})
	case "checkpoint_rejected":
		w.inc.store.setHook(func(op *storeOp) error {
			if op.Kind == "pos.put" && op.Task == idA && (persistent || fired.Load() == 0) {
				fired.Add(1)
				return fmt.Errorf("injected: store rejects the checkpoint")
			}
			return nil
		})
	}
	nFail := rapid.IntRange(1, 3).Draw(t, "rowsAfterFault")
	var failA []int64
	var failDeletes []int64 // primary keys of deletes that cannot be addressed (unknown_partition, delete form)
	if class == "unknown_partition" {
		// rows for a partition neither the source catalog nor the downstream knows: the reader cannot address them
		// (an insert into it, or a delete naming it)
		persistent = true
		asDelete := rapid.Bool().Draw(t, "unknownPartitionByDelete")
		for i := 0; i < nFail; i++ {
			if asDelete {
				failDeletes = append(failDeletes, p.deletePart(cA, 0, 3, "p_unknown", cA.id+77))
			} else {
				failA = append(failA, p.insertPart(cA, 0, 1, 3, "p_unknown", cA.id+77)...)
			}
			p.tick(pchs[0], 3)
		}
		if asDelete {
			// rows of A behind the failing delete: they must not overtake it
			failA = append(failA, produce(cA, 1)...)
		}
		fired.Add(1)
	} else {
		failA = produce(cA, nFail)
	}
	var cNew *srcColl
	var rowsNew []int64
	if class == "ddl_rejected" {
		// rows written to the new collection while its creation is failing downstream: after the resume they must be read from
		// the start of the collection
		cNew = newColl
		for i := 0; i < rapid.IntRange(0, 2).Draw(t, "rowsForNewCollection"); i++ {
			rowsNew = append(rowsNew, p.insert(cNew, 0, 1, 3)...)
			p.tick(pchs[0], 3)
		}
	}
	moreB := produce(cB, rapid.IntRange(1, 3).Draw(t, "rowsForB"))
	desc := fmt.Sprintf("sameTarget=%v packerMax=%d acked=%d class=%s persistent=%v rowsA=%d rowsB=%d", sameTarget, packerMax, pre+1, class, persistent, nFail, len(moreB))

	// B keeps replicating
	if !waitTicking(p, pchs, 10*time.Second, arrivedAll(tb, moreB)) {
		if _, quiet := quiesce.WaitStable(func() int { return w.targets[0].NumCalls() + w.targets[1].NumCalls() }, 6*time.Second); quiet {
			sA, rA := taskView(w, t, idA)
			sB, rB := taskView(w, t, idB)
			t.Fatalf("VERIF-VIOLATION C06 [%s]: the failure of task A stopped task B: rows of B produced after the fault never arrive and the service is at rest (A: %s %q, B: %s %q)\n%s",
				desc, sA, rA, sB, rB, quiesce.Dump())
		}
		if os.Getenv("VERIF_TRACE") != "" {
			fmt.Printf("TRACE inconclusive_B busy=%s\n", quiesce.Busy())
		}
		st.Count("inconclusive_B(not at rest)", 1)
		st.Class("class:" + class)
		st.Fingerprint(desc)
		st.Done()
		return
	}
	// A ends paused with a reason - unless the fault was transient and the writer's own retry got the pack through
	paused := waitTicking(p, pchs, 10*time.Second, func() bool {
		s, _ := taskView(w, t, idA)
		return s == "Paused" || (class == "write_rejected" && !persistent && fired.Load() > 0 && arrivedAll(ta, failA)()) ||
			(class == "ddl_rejected" && !persistent && w.targets[ta].Collection("default", "cnew") != nil && arrivedAll(ta, failA)())
	})
	sA, rA := taskView(w, t, idA)
	sB, rB := taskView(w, t, idB)
	if fired.Load() == 0 {
		t.Fatalf("VERIF-TROUBLE C06 [%s]: the fault never fired", desc)
	}
	if (class == "write_rejected" || (class == "ddl_rejected" && w.targets[ta].Collection("default", "cnew") != nil)) && sA == "Running" && !persistent && arrivedAll(ta, failA)() {
		// nothing failed for good: the message was retried, not skipped
		if sB != "Running" || rB != "" {
			t.Fatalf("VERIF-VIOLATION C06 [%s]: the other task B changed: state %s reason %q", desc, sB, rB)
		}
		st.Class("transient_fault_absorbed_by_retry")
		st.Class("class:" + class)
		st.Fingerprint(desc)
		st.Done()
		return
	}
	if !paused || sA != "Paused" {
		t.Fatalf("VERIF-VIOLATION C06 [%s]: the failing task A is %s (reason %q) instead of Paused; B is %s %q", desc, sA, rA, sB, rB)
	}
	if class == "start_rejected" && strings.Contains(rA, "manually") {
		t.Fatalf("VERIF-VIOLATION C06 [%s]: the collection of task A could not be started after the resume, but the task shows the reason of the earlier pause request (%q) instead of the failure", desc, rA)
	}
	if strings.TrimSpace(rA) == "" {
		t.Fatalf("VERIF-VIOLATION C06 [%s]: task A is Paused without a reason visible through get", desc)
	}
	if sB != "Running" || rB != "" {
		t.Fatalf("VERIF-VIOLATION C06 [%s]: the other task B changed: state %s reason %q (A: %s %q)", desc, sB, rB, sA, rA)
	}
	lr := w.inc.post(t, "list", map[string]any{})
	if !strings.Contains(lr.Raw, "Paused") {
		t.Fatalf("VERIF-VIOLATION C06 [%s]: list does not show the paused task: %s", desc, trunc(lr.Raw, 400))
	}
	// at rest: nothing of A accepted after the failing pack; checkpoint not beyond the acknowledged prefix
	quiesce.WaitStable(func() int { return w.targets[0].NumCalls() + w.targets[1].NumCalls() }, 6*time.Second)
	acc := acceptedRows(w.targets[ta])
	if class != "checkpoint_rejected" && class != "ddl_rejected" { // (rows of ca produced while the DDL of cnew was failing may be written before A pauses)
		for i, r := range failA {
			if acc[r] > 0 && !(i == 0 && false) {
				// with a once-only write fault the first failing pack is rejected, later packs of A must not be written either: A is paused
				t.Fatalf("VERIF-VIOLATION C06 [%s]: row %d of task A (produced after the rejected write) was accepted downstream although A failed: the failing pack was skipped", desc, i)
			}
		}
	}
	if dacc := acceptedDeletes(w.targets[ta]); len(failDeletes) > 0 {
		for _, k := range failDeletes {
			if dacc[k] > 0 {
				t.Fatalf("VERIF-VIOLATION C06 [%s]: the delete of key %d names a partition the downstream does not have, yet it was written downstream (not addressed to any partition) instead of failing the task", desc, k)
			}
		}
	}
	// checkpoint of A: the message index it names must not exceed the last row of A that was accepted downstream
	lastAck := uint64(0)
	for r, fr := range p.fed {
		if fr.coll == cA.id && acc[r] > 0 && fr.msgIdx > lastAck {
			lastAck = fr.msgIdx
		}
	}
	for _, pos := range w.listPositions(t, idA) {
		if pos.CollectionID != cA.id {
			continue
		}
		for ch, pi := range pos.Positions {
			idx := mq.Index(pi.DataPair.GetData())
			// ticks after the last acknowledged data pack may be acknowledged too; a checkpoint beyond the first unacknowledged row is not
			firstUnacked := uint64(0)
			for _, r := range failA {
				if acc[r] == 0 {
					firstUnacked = p.fed[r].msgIdx
					break
				}
			}
			if firstUnacked != 0 && idx >= firstUnacked {
				t.Fatalf("VERIF-VIOLATION C06 [%s]: checkpoint of A on %s names message %d but message %d (a row of A) was never acknowledged", desc, ch, idx, firstUnacked)
			}
		}
	}
	// ---- phase 3: clear the fault, resume A: the failed rows are not lost
	w.targets[ta].Before = nil
	w.inc.store.setHook(nil)
	if class == "unknown_partition" {
		w.targets[ta].AddPartition("default", "ca", "p_unknown")
	}
	if known("F-C05-resume-overtaken-by-stale-pause") {
		// a resume issued while the paused incarnation is still shutting down can be overtaken by its late failure (known finding
		// of C05: running task without readers): the resume is issued at rest
		quiesce.WaitStable(func() int { return w.targets[0].NumCalls() + w.targets[1].NumCalls() }, 4*time.Second)
		st.Count("resumes_issued_only_at_rest(F-C05-resume-overtaken-by-stale-pause)", 1)
	}
	if r := w.inc.post(t, "resume", map[string]any{"task_id": idA}); r.Code != 200 {
		t.Fatalf("VERIF-VIOLATION C06 [%s]: resume of the paused task failed after the fault was cleared: %s", desc, r.Raw)
	}
	arrivedA := waitTicking(p, pchs, 12*time.Second, arrivedAll(ta, failA))
	for round := 0; round < 2 && !arrivedA; round++ {
		// a late error of the stopped incarnation may pause the task again after the resume (visible: Paused with a reason);
		// the statement is about the resumed task, so it is resumed again before delivery is judged (counted)
		if s, _ := taskView(w, t, idA); s == "Running" {
			break
		}
		st.Count("task_paused_again_by_a_late_error_of_the_stopped_incarnation(resumed again)", 1)
		quiesce.WaitStable(func() int { return w.targets[0].NumCalls() + w.targets[1].NumCalls() }, 4*time.Second)
		w.inc.post(t, "resume", map[string]any{"task_id": idA})
		arrivedA = waitTicking(p, pchs, 12*time.Second, arrivedAll(ta, failA))
	}
	if !arrivedA {
		if _, quiet := quiesce.WaitStable(func() int { return w.targets[0].NumCalls() + w.targets[1].NumCalls() }, 6*time.Second); quiet {
			missing := 0
			a2 := acceptedRows(w.targets[ta])
			for _, r := range failA {
				if a2[r] == 0 {
					missing++
				}
			}
			t.Fatalf("VERIF-VIOLATION C06 [%s]: after resume %d of the %d rows of the failing packs never reach the downstream (silently skipped)", desc, missing, len(failA))
		}
		// not at rest (goroutines of this case are still retrying): no verdict
		st.Count("inconclusive_after_resume(not at rest)", 1)
		st.Class("class:" + class)
		st.Fingerprint(desc)
		st.Done()
		return
	}
	if len(failDeletes) > 0 {
		if !waitTicking(p, pchs, 12*time.Second, func() bool {
			d := acceptedDeletes(w.targets[ta])
			for _, k := range failDeletes {
				if d[k] == 0 {
					return false
				}
			}
			return true
		}) {
			if _, quiet := quiesce.WaitStable(func() int { return w.targets[0].NumCalls() + w.targets[1].NumCalls() }, 6*time.Second); quiet {
				t.Fatalf("VERIF-VIOLATION C06 [%s]: after resume the failing deletes never reach the downstream (silently skipped)", desc)
			}
			st.Count("inconclusive_after_resume(not at rest)", 1)
		}
	}
	if class == "ddl_rejected" && len(rowsNew) > 0 {
		if !waitTicking(p, pchs, 12*time.Second, arrivedAll(ta, rowsNew)) {
			if _, quiet := quiesce.WaitStable(func() int { return w.targets[0].NumCalls() + w.targets[1].NumCalls() }, 6*time.Second); quiet {
				t.Fatalf("VERIF-VIOLATION C06 [%s]: %d rows written to the new collection while its creation was failing never reach the downstream after the resume (the collection is not read from its start)", desc, len(rowsNew))
			}
			st.Count("inconclusive_after_resume(not at rest)", 1)
		}
	}
	if class == "ddl_rejected" {
		// the rejected DDL is not skipped either: after the resume the collection exists downstream
		if !waitTicking(p, pchs, 12*time.Second, func() bool { return w.targets[ta].Collection("default", "cnew") != nil }) {
			if _, quiet := quiesce.WaitStable(func() int { return w.targets[0].NumCalls() + w.targets[1].NumCalls() }, 6*time.Second); quiet {
				sA2, rA2 := taskView(w, t, idA)
				t.Fatalf("VERIF-VIOLATION C06 [%s]: after resume the rejected create-collection was never replayed: collection cnew does not exist downstream (A: %s %q)", desc, sA2, rA2)
			}
			st.Count("inconclusive_after_resume(not at rest)", 1)
		}
	}
	st.Class("class:" + class)
	st.ClassIf(len(failDeletes) > 0, "unknown_partition_named_by_a_delete")
	st.ClassIf(len(rowsNew) > 0, "rows_for_the_collection_whose_creation_fails")
	st.ClassIf(sameTarget, "two_tasks_same_target")
	st.ClassIf(!sameTarget, "two_tasks_different_targets")
	st.ClassIf(persistent, "persistent_fault")
	st.ClassIf(packerMax > 1, "batched_writes")
	st.Count("cases_excluded_by_F-C05-resume-without-checkpoint(fault injected after the first checkpoint of both streams)", excludedNoCheckpoint)
	st.NonTrivial(pre > 0 || sameTarget)
	st.Fingerprint(desc)
	st.Sample(desc)
	st.Done()
}

func TestC06(t *testing.T) {
	rapid.Check(t, c06Body)
}
