package hserver

// C10 — a source collection is replicated by at most one task per target.
//
// Stateful property: generated histories of create / create-with-injected-failure / delete / restart requests through the
// REAL HTTP handler and MetaCDC (real etcd meta store, fake downstream). Oracles after every step:
//   (1) per target every (database, collection) of a universe is selected by at most one accepted task, on the data path
//       (GetShouldReadFunc) and on the DDL-message path (GetCollectionInfos + MatchCollection), and both paths agree;
//   (2) a task selects exactly  spec \ (what other tasks of the target selected when it was accepted), and keeps that selection;
//   (3) a rejected create leaves bookkeeping and store unchanged;
//   (4) the duplicate-detection bookkeeping equals what the persisted tasks imply (reference written from the statement),
//       after every accepted/failed create, delete and restart.

import (
	"encoding/json"
	"fmt"
	"sort"
	"strings"
	"sync"
	"sync/atomic"
	"testing"

	"pgregory.net/rapid"

	coremodel "github.com/zilliztech/milvus-cdc/core/model"
	"github.com/zilliztech/milvus-cdc/core/pb"
	"github.com/zilliztech/milvus-cdc/server"
	"github.com/zilliztech/milvus-cdc/server/model/meta"

	"github.com/milvus-io/milvus-proto/go-api/v2/schemapb"

	"verifharness/stats"
)

var (
	uniDBs   = []string{"default", "db1", "db2", "db3"}
	uniColls = []string{"c1", "c2", "c3"}
)

type spec struct {
	Form string // "infos" (collection_infos, database default) or "db" (db_collections)
	DB   string // default, db1, db2, *
	Coll string // c1, c2, *
}

func (s spec) String() string { return s.Form + ":" + s.DB + "." + s.Coll }

func (s spec) selects(db, coll string) bool {
	return (s.DB == "*" || s.DB == db) && (s.Coll == "*" || s.Coll == coll)
}

func (s spec) request(uri string) map[string]any {
	d := map[string]any{"milvus_connect_param": map[string]any{"uri": uri, "connect_timeout": 3}}
	if s.Form == "infos" {
		d["collection_infos"] = []any{map[string]any{"name": s.Coll}}
	} else {
		d["db_collections"] = map[string]any{s.DB: []any{map[string]any{"name": s.Coll}}}
	}
	return d
}

func genSpec(t *rapid.T) spec {
	s := spec{Form: rapid.SampledFrom([]string{"infos", "db", "db", "db"}).Draw(t, "form")}
	s.Coll = rapid.SampledFrom([]string{"c1", "c2", "*", "*"}).Draw(t, "coll")
	if s.Form == "infos" {
		s.DB = "default"
	} else {
		s.DB = rapid.SampledFrom([]string{"default", "db1", "db2", "*", "*"}).Draw(t, "db")
	}
	return s
}

func pairKey(db, c string) string { return db + "." + c }

func short(s string) string {
	s = strings.TrimPrefix(s, "fail to handle the create request, error: ")
	if len(s) > 70 {
		return s[:70] + "..."
	}
	return s
}

// readSets evaluates both selection paths of the code under test for one persisted task over the universe.
func readSets(ti *meta.TaskInfo) (data, ddl map[string]bool) {
	data, ddl = map[string]bool{}, map[string]bool{}
	f := server.GetShouldReadFunc(ti)
	for _, db := range uniDBs {
		for _, c := range uniColls {
			_, ok := f(&coremodel.DatabaseInfo{Name: db}, &pb.CollectionInfo{Schema: &schemapb.CollectionSchema{Name: c}})
			if ok {
				data[pairKey(db, c)] = true
			}
			infos := server.GetCollectionInfos(ti, db, c)
			if infos != nil && server.MatchCollection(ti, infos, db, c) {
				ddl[pairKey(db, c)] = true
			}
		}
	}
	return
}

func setStr(m map[string]bool) string {
	var k []string
	for s := range m {
		k = append(k, s)
	}
	sort.Strings(k)
	return strings.Join(k, ",")
}

// impliedBookkeeping: what the persisted tasks imply (reference derived from the statement, not from the code's maps).
func impliedBookkeeping(tasks []*meta.TaskInfo) string {
	s := server.VerifSnapshot{Data: map[string][]string{}, ExcludeData: map[string][]string{}}
	roles := map[string]bool{}
	for _, ti := range tasks {
		u := ti.MilvusConnectParam.URI
		if ti.CollectionInfos != nil {
			for _, ci := range ti.CollectionInfos {
				s.Data[u] = append(s.Data[u], "default."+ci.Name)
			}
		}
		for db, cis := range ti.DBCollections {
			for _, ci := range cis {
				s.Data[u] = append(s.Data[u], db+"."+ci.Name)
			}
		}
		s.ExcludeData[u] = append(s.ExcludeData[u], ti.ExcludeCollections...)
		if ti.ExtraInfo.EnableUserRole {
			roles[u] = true
		}
	}
	var sb strings.Builder
	for _, part := range []struct {
		n string
		m map[string][]string
	}{{"data", sortedCopy(s.Data)}, {"exclude", sortedCopy(s.ExcludeData)}} {
		keys := make([]string, 0, len(part.m))
		for k := range part.m {
			keys = append(keys, k)
		}
		sort.Strings(keys)
		for _, k := range keys {
			fmt.Fprintf(&sb, "%s[%s]=%v;", part.n, k, part.m[k])
		}
	}
	keys := make([]string, 0)
	for k := range roles {
		keys = append(keys, k)
	}
	sort.Strings(keys)
	fmt.Fprintf(&sb, "userrole=%v", keys)
	return sb.String()
}

type c10task struct {
	id     string
	label  string
	target int
	spec   spec
	sel    map[string]bool // selection fixed at acceptance
	role   bool
}

func c10Body(t *rapid.T) {
	st := stats.New("C10")
	w := newWorld(t, worldOpt{targets: 2, maxTasks: 4})
	defer w.close(t)
	w.start(t, false)
	tasks := map[string]*c10task{}
	var hist []string
	nAccepted, nRejected, nFailed, nRestart, nDelete := 0, 0, 0, 0, 0
	overlapAccepted := false
	nConcurrent := 0
	nNoAuto := 0

	othersUnion := func(target int, except string) map[string]bool {
		u := map[string]bool{}
		for id, ta := range tasks {
			if id == except || ta.target != target {
				continue
			}
			for k := range ta.sel {
				u[k] = true
			}
		}
		return u
	}

	check := func(where string) {
		persisted := w.listTasks(t)
		if len(persisted) != len(tasks) {
			t.Fatalf("after %s: %d persisted tasks, model has %d\nhistory: %v", where, len(persisted), len(tasks), hist)
		}
		owner := map[string]string{}
		for _, ti := range persisted {
			ta := tasks[ti.TaskID]
			if ta == nil {
				t.Fatalf("after %s: unknown persisted task %s\nhistory: %v", where, ti.TaskID, hist)
			}
			data, ddl := readSets(ti)
			if setStr(data) != setStr(ddl) {
				t.Fatalf("after %s: task %s (%s) data path selects {%s} but DDL path selects {%s}\nhistory: %v", where, ti.TaskID, ta.spec, setStr(data), setStr(ddl), hist)
			}
			if setStr(data) != setStr(ta.sel) {
				t.Fatalf("after %s: task %s (%s, exclude %v) selects {%s}, expected {%s} (spec minus what others owned at acceptance)\nhistory: %v",
					where, ti.TaskID, ta.spec, ti.ExcludeCollections, setStr(data), setStr(ta.sel), hist)
			}
			for k := range data {
				ok := fmt.Sprintf("%d/%s", ta.target, k)
				if o, dup := owner[ok]; dup {
					t.Fatalf("after %s: collection %s on target %d is selected by tasks %s and %s\nhistory: %v", where, k, ta.target, o, ti.TaskID, hist)
				}
				owner[ok] = ti.TaskID
			}
			st.Count("selection_comparisons", len(uniDBs)*len(uniColls))
		}
		got, want := bookkeeping(w.inc.cdc.VerifSnapshot()), impliedBookkeeping(persisted)
		if got != want {
			t.Fatalf("after %s: bookkeeping differs from what the persisted tasks imply\n got: %s\nwant: %s\nhistory: %v", where, got, want, hist)
		}
	}

	create := func(t *rapid.T, failAt string) {
		sp := genSpec(t)
		target := rapid.IntRange(0, 1).Draw(t, "target")
		role := rapid.IntRange(0, 4).Draw(t, "role") == 0
		req := sp.request(w.uris[target])
		if role {
			req["extra_info"] = map[string]any{"enable_user_role": true}
		}
		// a task that is not started automatically (it stays paused across a restart) owns its collections like any other
		noAuto := rapid.IntRange(0, 3).Draw(t, "disableAutoStart") == 0
		if noAuto {
			req["disable_auto_start"] = true
		}
		mapKind := rapid.IntRange(0, 5).Draw(t, "mapping")
		switch mapKind {
		case 0: // mapping of the named database (valid iff the spec covers it)
			req["name_mapping"] = []any{map[string]any{"source_db": "db1", "target_db": "x1"}}
		case 1:
			req["name_mapping"] = []any{map[string]any{"source_db": "default", "target_db": "x0", "collection_mapping": map[string]any{"c1": "y1"}}}
		}
		desc := fmt.Sprintf("create(%s,t%d,role=%v,map=%d,noAuto=%v,fail=%s)", sp, target, role, mapKind, noAuto, failAt)
		if noAuto {
			nNoAuto++
		}
		before := bookkeeping(w.inc.cdc.VerifSnapshot())
		dumpBefore := strings.Join(w.dumpMeta(t), "\n")
		if failAt != "" {
			var n atomic.Int32
			skip := int32(rapid.IntRange(0, 2).Draw(t, "failSkip"))
			w.inc.store.setHook(func(op *storeOp) error {
				if op.Kind == failAt {
					if n.Add(1) == skip+1 { // a single transient failure
						return fmt.Errorf("injected store failure at %s", op.Kind)
					}
				}
				return nil
			})
		}
		r := w.inc.post(t, "create", req)
		w.inc.store.setHook(nil)
		hist = append(hist, fmt.Sprintf("%s->%d %s", desc, r.Code, short(r.Msg)))
		if r.Code == 200 {
			id, _ := r.Data["task_id"].(string)
			if id == "" {
				t.Fatalf("create answered 200 without task id: %s", r.Raw)
			}
			// Bounds for the selection of the new task: everything its specification names that no other task of the target
			// names in its specification must be selected (lower bound); nothing another task effectively selects may be
			// selected (upper bound). Between the bounds (names another task nominally owns through a wildcard but has
			// itself excluded) the statement leaves the choice open; the selection observed now must then stay constant.
			others := othersUnion(target, "")
			nominal := map[string]bool{}
			for _, ta := range tasks {
				if ta.target == target {
					for _, db := range uniDBs {
						for _, c := range uniColls {
							if ta.spec.selects(db, c) {
								nominal[pairKey(db, c)] = true
							}
						}
					}
				}
			}
			var persistedNew *meta.TaskInfo
			for _, ti := range w.listTasks(t) {
				if ti.TaskID == id {
					persistedNew = ti
				}
			}
			if persistedNew == nil {
				t.Fatalf("accepted task %s is not persisted\nhistory: %v", id, hist)
			}
			sel, _ := readSets(persistedNew)
			for _, db := range uniDBs {
				for _, c := range uniColls {
					k := pairKey(db, c)
					switch {
					case !sp.selects(db, c) && sel[k]:
						t.Fatalf("task %s (%s) selects %s which its specification does not name\nhistory: %v", id, sp, k, hist)
					case sp.selects(db, c) && others[k]:
						overlapAccepted = true
						if sel[k] {
							t.Fatalf("task %s (%s) was accepted and selects %s which another task of target %d already replicates\nhistory: %v", id, sp, k, target, hist)
						}
					case sp.selects(db, c) && !nominal[k] && !sel[k]:
						t.Fatalf("task %s (%s, exclude %v) does not select %s although no other task of target %d names it\nhistory: %v", id, sp, persistedNew.ExcludeCollections, k, target, hist)
					case sp.selects(db, c) && nominal[k] && !others[k]:
						st.Class("name_nominally_owned_but_excluded_by_owner")
					}
				}
			}
			nAccepted++
			tasks[id] = &c10task{id: id, label: fmt.Sprintf("T%d", nAccepted), target: target, spec: sp, sel: sel, role: role}
			hist[len(hist)-1] += " as " + tasks[id].label
		} else {
			if failAt != "" {
				nFailed++
			} else {
				nRejected++
			}
			if after := bookkeeping(w.inc.cdc.VerifSnapshot()); after != before {
				t.Fatalf("rejected %s changed the bookkeeping\nbefore: %s\n after: %s\nhistory: %v", desc, before, after, hist)
			}
			// the store content is compared for genuine rejects only: with an injected store failure the request may have written
			// records it can no longer remove (out of scope of this property; the task list is still compared by check())
			if d := strings.Join(w.dumpMeta(t), "\n"); failAt == "" && d != dumpBefore {
				t.Fatalf("rejected %s changed the meta store\nbefore:\n%s\nafter:\n%s\nhistory: %v", desc, dumpBefore, d, hist)
			}
		}
		check(desc)
	}

	t.Repeat(map[string]func(*rapid.T){
		"create": func(t *rapid.T) { create(t, "") },
		"createFail": func(t *rapid.T) {
			create(t, rapid.SampledFrom([]string{"info.get", "info.put", "pos.get", "info.get"}).Draw(t, "failAt"))
		},
		"concurrentCreates": func(t *rapid.T) {
			// the HTTP server handles requests concurrently: 2..4 create requests for one target are released together. Which of
			// them win is open; whatever was accepted must satisfy the invariants of check(): every pair owned by at most one
			// task, both selection paths agree, the bookkeeping equals what the persisted tasks imply.
			if nConcurrent >= 2 {
				t.Skip("enough concurrent rounds")
			}
			k := rapid.IntRange(2, 4).Draw(t, "k")
			target := rapid.IntRange(0, 1).Draw(t, "target")
			specs := make([]spec, k)
			bodies := make([][]byte, k)
			for i := range specs {
				specs[i] = genSpec(t)
				req := specs[i].request(w.uris[target])
				if rapid.IntRange(0, 4).Draw(t, "role") == 0 {
					req["extra_info"] = map[string]any{"enable_user_role": true}
				}
				bodies[i], _ = json.Marshal(map[string]any{"request_type": "create", "request_data": req})
			}
			results := make([]resp, k)
			panics := make([]any, k)
			gate := make(chan struct{})
			var wg sync.WaitGroup
			for i := 0; i < k; i++ {
				wg.Add(1)
				go func(i int) {
					defer wg.Done()
					<-gate
					results[i], panics[i] = w.inc.postRaw("POST", bodies[i])
				}(i)
			}
			close(gate)
			wg.Wait()
			var names []string
			for i := range specs {
				if panics[i] != nil {
					t.Fatalf("concurrent create %s panicked the handler: %v\nhistory: %v", specs[i], panics[i], hist)
				}
				names = append(names, fmt.Sprintf("%s->%d", specs[i], results[i].Code))
			}
			hist = append(hist, fmt.Sprintf("concurrentCreates(t%d,%s)", target, strings.Join(names, " | ")))
			persisted := map[string]*meta.TaskInfo{}
			for _, ti := range w.listTasks(t) {
				persisted[ti.TaskID] = ti
			}
			for i := range specs {
				if results[i].Code != 200 {
					nRejected++
					continue
				}
				id, _ := results[i].Data["task_id"].(string)
				ti := persisted[id]
				if ti == nil {
					t.Fatalf("accepted task %s (%s) is not persisted\nhistory: %v", id, specs[i], hist)
				}
				sel, _ := readSets(ti)
				for _, db := range uniDBs {
					for _, c := range uniColls {
						if kk := pairKey(db, c); sel[kk] && !specs[i].selects(db, c) {
							t.Fatalf("task %s (%s) selects %s which its specification does not name\nhistory: %v", id, specs[i], kk, hist)
						}
					}
				}
				nAccepted++
				tasks[id] = &c10task{id: id, label: fmt.Sprintf("T%d", nAccepted), target: target, spec: specs[i], sel: sel}
			}
			nConcurrent++
			check("concurrentCreates")
		},
		"delete": func(t *rapid.T) {
			if len(tasks) == 0 {
				t.Skip("no task")
			}
			labels := make([]string, 0, len(tasks))
			byLabel := map[string]string{}
			for id, ta := range tasks {
				labels = append(labels, ta.label)
				byLabel[ta.label] = id
			}
			sort.Strings(labels)
			id := byLabel[rapid.SampledFrom(labels).Draw(t, "victim")]
			r := w.inc.post(t, "delete", map[string]any{"task_id": id})
			hist = append(hist, fmt.Sprintf("delete(%s %s)->%d %s", tasks[id].label, tasks[id].spec, r.Code, r.Msg))
			if r.Code != 200 {
				t.Fatalf("delete of an existing task failed: %s\nhistory: %v", r.Raw, hist)
			}
			delete(tasks, id)
			nDelete++
			check("delete")
		},
		"restart": func(t *rapid.T) {
			if len(tasks) == 0 || nRestart >= 2 {
				t.Skip("nothing to reload")
			}
			w.inc.kill()
			w.start(t, true)
			hist = append(hist, "restart")
			nRestart++
			check("restart")
		},
	})

	st.ClassIf(nAccepted >= 2, "two_or_more_accepted")
	st.ClassIf(overlapAccepted, "accepted_with_exclusion")
	st.ClassIf(nRejected > 0, "rejected_create")
	st.ClassIf(nFailed > 0, "failed_create_after_bookkeeping")
	st.ClassIf(nConcurrent > 0, "concurrent_creates")
	st.ClassIf(nNoAuto > 0 && nRestart > 0, "task_without_auto_start_across_a_restart")
	st.ClassIf(nRestart > 0, "restart")
	st.ClassIf(nDelete > 0, "delete")
	st.Count("creates_accepted", nAccepted)
	st.Count("creates_rejected", nRejected)
	st.Count("creates_failed_injected", nFailed)
	st.NonTrivial(overlapAccepted)
	st.Fingerprint(strings.Join(hist, ";"))
	st.Sample(hist)
	st.Done()
}

func TestC10(t *testing.T) {
	rapid.Check(t, c10Body)
}
