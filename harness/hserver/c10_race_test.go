package hserver

import (
	"encoding/json"
	"fmt"
	"sync/atomic"
	"testing"
	"time"
)

// Regression of fix "only a create request which has set the user role flag takes it back" (found by the action
// concurrentCreates of TestC10 at VERIF_SEED=2): create requests are handled concurrently. A create request that fails after it registered its names
// recomputes the per-target user-role flag from the tasks that have been STARTED (cdcTasks); a create request with
// enable_user_role that is still in flight at that moment (it has set the flag, but is not in that table yet) is not counted:
// the flag is cleared, the request then succeeds, and the bookkeeping no longer equals what the accepted tasks imply (a second
// enable_user_role task would now be accepted for the target).
// Schedule: B = create(default.c1) is held at its first store read; A = create(default.c2, enable_user_role) is held at the write
// of its task record; B's read fails -> B reverts; A is released and succeeds.
func TestC10_UserRoleFlagRace(tt *testing.T) {
	const id = "user-role flag race"
	t := plainT{tt}
	w := newWorld(t, worldOpt{targets: 1, maxTasks: 4})
	defer w.close(t)
	w.start(t, false)
	var step atomic.Int32
	var aHeld atomic.Bool
	holdB, holdA, aAtPut := make(chan struct{}), make(chan struct{}), make(chan struct{})
	w.inc.store.setHook(func(op *storeOp) error {
		if op.Kind == "info.get" && step.CompareAndSwap(0, 1) {
			<-holdB
			return fmt.Errorf("injected: store read fails")
		}
		if op.Kind == "info.put" && step.Load() >= 1 && aHeld.CompareAndSwap(false, true) {
			close(aAtPut)
			<-holdA
		}
		return nil
	})
	post := func(name string, role bool) chan resp {
		req := map[string]any{"milvus_connect_param": map[string]any{"uri": w.uris[0], "connect_timeout": 3}, "collection_infos": []any{map[string]any{"name": name}}}
		if role {
			req["extra_info"] = map[string]any{"enable_user_role": true}
		}
		body, _ := json.Marshal(map[string]any{"request_type": "create", "request_data": req})
		ch := make(chan resp, 1)
		go func() { r, _ := w.inc.postRaw("POST", body); ch <- r }()
		return ch
	}
	rb := post("c1", false)
	if !waitFor(10*time.Second, func() bool { return step.Load() == 1 }) {
		t.Fatalf("VERIF-TROUBLE %s: request B did not reach the store", id)
	}
	ra := post("c2", true)
	select {
	case <-aAtPut:
	case <-time.After(15 * time.Second):
		t.Fatalf("VERIF-TROUBLE %s: request A did not reach the write of its task record", id)
	}
	close(holdB)
	b := <-rb
	close(holdA)
	a := <-ra
	w.inc.store.setHook(nil)
	if b.Code == 200 || a.Code != 200 {
		t.Fatalf("VERIF-TROUBLE %s: unexpected answers B=%d A=%d (%s)", id, b.Code, a.Code, a.Raw)
	}
	got, want := bookkeeping(w.inc.cdc.VerifSnapshot()), impliedBookkeeping(w.listTasks(t))
	fmt.Printf("bookkeeping: %s\nimplied by the accepted tasks: %s\n", got, want)
	if got != want {
		t.Fatalf("VERIF-VIOLATION C10: a failed create request cleared the user-role flag set by a create request that was still in flight\n got: %s\nwant: %s", got, want)
	}
}

// Regression of fix "a name excluded by one wildcard task is not free when another wildcard task contains it" (found by TestC10
// at VERIF_SEED=2, sequential history): create(default.c2) ; create(default.*) ; create(*.*) - which excludes both - ; delete
// (default.*) ; delete(default.c2) ; create(default.*) again - accepted, it now replicates default.c2 - ; create(default.c2):
// must not end up replicated by two tasks of the target.
func TestC10_ExcludedByAnotherWildcard(tt *testing.T) {
	t := plainT{tt}
	w := newWorld(t, worldOpt{targets: 1, maxTasks: 6})
	defer w.close(t)
	w.start(t, false)
	mk := func(name string) (string, int) {
		r := w.inc.post(t, "create", map[string]any{"milvus_connect_param": map[string]any{"uri": w.uris[0], "connect_timeout": 3},
			"collection_infos": []any{map[string]any{"name": name}}})
		id, _ := r.Data["task_id"].(string)
		return id, r.Code
	}
	del := func(id string) {
		if r := w.inc.post(t, "delete", map[string]any{"task_id": id}); r.Code != 200 {
			t.Fatalf("VERIF-TROUBLE delete: %s", r.Raw)
		}
	}
	c2, _ := mk("c2")
	star, _ := mk("*")
	all := w.inc.post(t, "create", map[string]any{"milvus_connect_param": map[string]any{"uri": w.uris[0], "connect_timeout": 3},
		"db_collections": map[string]any{"*": []any{map[string]any{"name": "*"}}}})
	if c2 == "" || star == "" || all.Code != 200 {
		t.Fatalf("VERIF-TROUBLE set-up creates failed: %q %q %s", c2, star, all.Raw)
	}
	del(star)
	del(c2)
	if id, code := mk("*"); id == "" {
		t.Fatalf("VERIF-TROUBLE second create of default.* failed: %d", code)
	}
	_, code := mk("c2")
	owners := map[string][]string{}
	for _, ti := range w.listTasks(t) {
		data, _ := readSets(ti)
		for k := range data {
			owners[k] = append(owners[k], ti.TaskID[:6])
		}
	}
	for k, o := range owners {
		if len(o) > 1 {
			t.Fatalf("VERIF-VIOLATION C10: after create(default.c2)->%d the collection %s is selected by %d tasks of one target: %v", code, k, len(o), o)
		}
	}
}
