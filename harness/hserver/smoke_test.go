package hserver

import (
	"fmt"
	"os"
	"runtime"
	"strings"
	"testing"
	"time"

	"go.uber.org/zap/zapcore"

	"github.com/zilliztech/milvus-cdc/core/log"

	"verifharness/quiesce"
)

// TestSmokeFlow: one task, one collection with two shards, a few inserts: everything arrives downstream and checkpoints are written.
func TestSmokeFlow(t *testing.T) {
	if os.Getenv("VERIF_SMOKE") == "" {
		t.Skip("set VERIF_SMOKE=1")
	}
	if os.Getenv("VERIF_SMOKE") == "2" {
		log.SetLevel(zapcore.InfoLevel)
	}
	tf := tfatal{t}
	w := newWorld(tf, worldOpt{targets: 1})
	defer w.close(tf)
	w.start(tf, false)
	p := w.newProducer()
	defer p.close()
	c := w.addSourceCollection(tf, "default", "c1", 2, w.targets[0])
	for _, pch := range c.pch {
		p.tick(pch, 10)
	}
	t0 := time.Now()
	r := w.inc.post(tf, "create", map[string]any{"milvus_connect_param": map[string]any{"uri": w.uris[0], "connect_timeout": 3}, "collection_infos": []any{map[string]any{"name": "*"}}})
	fmt.Println("create:", r.Raw, time.Since(t0))
	var rows []int64
	for i := 0; i < 5; i++ {
		rows = append(rows, p.insert(c, i%2, 2, 10)...)
		for _, pch := range c.pch {
			p.tick(pch, 10)
		}
	}
	ok := waitFor(10*time.Second, func() bool {
		acc := acceptedRows(w.targets[0])
		for _, r := range rows {
			if acc[r] == 0 {
				return false
			}
		}
		return true
	})
	fmt.Println("all rows arrived:", ok, time.Since(t0), "rows", len(rows), "accepted", len(acceptedRows(w.targets[0])))
	for _, c := range w.targets[0].Calls() {
		fmt.Println("  RPC", c.Seq, c.Method, c.DB, c.Info, c.Failed)
	}
	for _, pk := range w.targets[0].Packs() {
		types := ""
		for _, m := range pk.Msgs {
			types += fmt.Sprintf("%s(%v) ", m.Type, m.RowIDs)
		}
		fmt.Printf("  PACK %d %s [%d,%d] %s endid=%v\n", pk.Seq, pk.Channel, pk.BeginTs, pk.EndTs, types, pk.End[0].MsgID)
	}
	dbgTopic(w, c.pch[0])
	fmt.Println(quiesce.Dump())
	{
		buf := make([]byte, 8<<20)
		n := runtime.Stack(buf, true)
		for _, g := range strings.Split(string(buf[:n]), "\n\n") {
			if strings.Contains(g, "msgdispatcher") || strings.Contains(g, "msgstream") || strings.Contains(g, "fakes/mq") {
				lines := strings.Split(g, "\n")
				out := lines[0]
				for _, l := range lines[1:] {
					if !strings.HasPrefix(l, "\t") && len(out) < 600 {
						out += " <- " + l[strings.LastIndex(l, "/")+1:]
					}
				}
				fmt.Println("G:", out)
			}
		}
	}
	fmt.Println("LIST", w.inc.post(tf, "list", map[string]any{}).Raw)
	for _, l := range w.dumpMeta(tf) {
		fmt.Println("  KV", l)
	}
	if !ok {
		t.Fatalf("rows did not arrive")
	}
}
