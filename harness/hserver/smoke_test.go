package hserver

import (
	"fmt"
	"os"
	"runtime"
	"strings"
	"testing"
	"time"

	"go.uber.org/zap/zapcore"

	"github.com/zilliztech/milvus-cdc/core/log"

	"verifharness/quiesce"
)

// TestSmokeFlow: one task, one collection with two shards, a few inserts: everything arrives downstream and checkpoints are written.
func TestSmokeFlow(t *testing.T) {
	if os.Getenv("VERIF_SMOKE") == "" {
		t.Skip("set VERIF_SMOKE=1")
	}
	if os.Getenv("VERIF_SMOKE") == "2" {
		log.SetLevel(zapcore.InfoLevel)
	}
	tf := tfatal{t}
	w := newWorld(tf, worldOpt{targets: 1})
	defer w.close(tf)
	w.start(tf, false)
	p := w.newProducer()
	defer p.close()
	c := w.addSourceCollection(tf, "default", "c1", 2, w.targets[0])
	for _, pch := range c.pch {
		p.tick(pch, 10)
	}
	t0 := time.Now()
	r := w.inc.post(tf, "create", map[string]any{"milvus_connect_param": map[string]any{"uri": w.uris[0], "connect_timeout": 3}, "collection_infos": []any{map[string]any{"name": "*"}}})
	fmt.Println("create:", r.Raw, time.Since(t0))
	var rows []int64
	for i := 0; i < 5; i++ {
		rows = append(rows, p.insert(c, i%2, 2, 10)...)
		for _, pch := range c.pch {
			p.tick(pch, 10)
		}
	}
	ok := waitFor(10*time.Second, func() bool {
		acc := acceptedRows(w.targets[0])
		for _, r := range rows {
			if acc[r] == 0 {
				return false
			}
		}
		return true
	})
	fmt.Println("all rows arrived:", ok, time.Since(t0), "rows", len(rows), "accepted", len(acceptedRows(w.targets[0])))
	for _, c := range w.targets[0].Calls() {
		fmt.Println("  RPC", c.Seq, c.Method, c.DB, c.Info, c.Failed)
	}
	for _, pk := range w.targets[0].Packs() {
		types := ""
		for _, m := range pk.Msgs {
			types += fmt.Sprintf("%s(%v) ", m.Type, m.RowIDs)
		}
		fmt.Printf("  PACK %d %s [%d,%d] %s endid=%v\n", pk.Seq, pk.Channel, pk.BeginTs, pk.EndTs, types, pk.End[0].MsgID)
	}
	dbgTopic(w, c.pch[0])
	fmt.Println(quiesce.Dump())
	{
		buf := make([]byte, 8<<20)
		n := runtime.Stack(buf, true)
		for _, g := range strings.Split(string(buf[:n]), "\n\n") {
			if strings.Contains(g, "msgdispatcher") || strings.Contains(g, "msgstream") || strings.Contains(g, "fakes/mq") {
				lines := strings.Split(g, "\n")
				out := lines[0]
				for _, l := range lines[1:] {
					if !strings.HasPrefix(l, "\t") && len(out) < 600 {
						out += " <- " + l[strings.LastIndex(l, "/")+1:]
					}
				}
				fmt.Println("G:", out)
			}
		}
	}
	fmt.Println("LIST", w.inc.post(tf, "list", map[string]any{}).Raw)
	for _, l := range w.dumpMeta(tf) {
		fmt.Println("  KV", l)
	}
	if !ok {
		t.Fatalf("rows did not arrive")
	}
}

// TestSmokeRecreate: create, delete, create again on the same target; data must flow for the second task.
func TestSmokeRecreate(t *testing.T) {
	if os.Getenv("VERIF_SMOKE") == "" {
		t.Skip("set VERIF_SMOKE=1")
	}
	if os.Getenv("VERIF_SMOKE") == "2" {
		log.SetLevel(zapcore.InfoLevel)
	}
	tf := tfatal{t}
	w := newWorld(tf, worldOpt{targets: 1})
	defer w.close(tf)
	w.start(tf, false)
	p := w.newProducer()
	defer p.close()
	c := w.addSourceCollection(tf, "default", "c1", 1, w.targets[0])
	p.tick(c.pch[0], 10)
	req := map[string]any{"milvus_connect_param": map[string]any{"uri": w.uris[0], "connect_timeout": 3}, "collection_infos": []any{map[string]any{"name": "c1"}}}
	for round := 0; round < 3; round++ {
		r := w.inc.post(tf, "create", req)
		id, _ := r.Data["task_id"].(string)
		rows := p.insert(c, 0, 1, 10)
		p.tick(c.pch[0], 10)
		p.tick(c.pch[0], 10)
		ok := waitFor(8*time.Second, func() bool { return acceptedRows(w.targets[0])[rows[0]] > 0 })
		fmt.Println("round", round, "create", r.Code, "row arrived:", ok)
		if !ok {
			fmt.Println(quiesce.Dump())
			t.Fatalf("row did not arrive in round %d", round)
		}
		d := w.inc.post(tf, "delete", map[string]any{"task_id": id})
		fmt.Println("delete", d.Code)
	}
}

// TestSmokeShared: two tasks on one target sharing the channels; delete the first; the second must keep replicating.
func TestSmokeShared(t *testing.T) {
	if os.Getenv("VERIF_SMOKE") == "" {
		t.Skip("set VERIF_SMOKE=1")
	}
	if os.Getenv("VERIF_SMOKE") == "2" {
		log.SetLevel(zapcore.InfoLevel)
	}
	tf := tfatal{t}
	w := newWorld(tf, worldOpt{targets: 1})
	defer w.close(tf)
	w.start(tf, false)
	p := w.newProducer()
	defer p.close()
	c1 := w.addSourceCollection(tf, "default", "c1", 1, w.targets[0])
	c2 := w.addSourceCollection(tf, "default", "c2", 1, w.targets[0])
	p.tick(c1.pch[0], 10)
	mk := func(name string) string {
		r := w.inc.post(tf, "create", map[string]any{"milvus_connect_param": map[string]any{"uri": w.uris[0], "connect_timeout": 3}, "collection_infos": []any{map[string]any{"name": name}}})
		id, _ := r.Data["task_id"].(string)
		return id
	}
	t1, t2 := mk("c1"), mk("c2")
	_ = t2
	step := func(tag string, cs ...*srcColl) {
		var rows []int64
		for _, c := range cs {
			rows = append(rows, p.insert(c, 0, 1, 10)...)
		}
		p.tick(c1.pch[0], 10)
		p.tick(c1.pch[0], 10)
		ok := waitFor(6*time.Second, func() bool {
			acc := acceptedRows(w.targets[0])
			for _, r := range rows {
				if acc[r] == 0 {
					return false
				}
			}
			return true
		})
		fmt.Println(tag, "rows arrived:", ok)
		if !ok {
			fmt.Println(quiesce.Dump())
			t.Fatalf("%s: rows did not arrive", tag)
		}
	}
	step("both", c1, c2)
	fmt.Println("delete t1", w.inc.post(tf, "delete", map[string]any{"task_id": t1}).Code)
	step("after delete", c2)
}

// TestSmokeLeak: reproduction attempt for a consumer that stays open after every task is gone.
func TestSmokeLeak(t *testing.T) {
	if os.Getenv("VERIF_SMOKE") == "" {
		t.Skip("set VERIF_SMOKE=1")
	}
	tf := tfatal{t}
	w := newWorld(tf, worldOpt{targets: 2})
	defer w.close(tf)
	w.start(tf, false)
	p := w.newProducer()
	defer p.close()
	var cs []*srcColl
	for i := 0; i < 3; i++ {
		c := w.addSourceCollection(tf, "default", fmt.Sprintf("c%d", i+1), 1, nil)
		for _, tg := range w.targets {
			tg.AddCollection("default", c.name, 1)
		}
		cs = append(cs, c)
	}
	p.tick(cs[0].pch[0], 10)
	mk := func(target int, name string, noAuto bool) string {
		r := w.inc.post(tf, "create", map[string]any{"milvus_connect_param": map[string]any{"uri": w.uris[target], "connect_timeout": 3}, "collection_infos": []any{map[string]any{"name": name}}, "disable_auto_start": noAuto})
		id, _ := r.Data["task_id"].(string)
		fmt.Println("create", target, name, r.Code, "open:", w.inc.mqf.Open())
		return id
	}
	feed := func() {
		for _, c := range cs {
			p.insert(c, 0, 1, 5)
		}
		p.tick(cs[0].pch[0], 5)
		p.tick(cs[0].pch[0], 5)
		time.Sleep(1500 * time.Millisecond)
	}
	op := func(typ, id string) {
		r := w.inc.post(tf, typ, map[string]any{"task_id": id})
		time.Sleep(300 * time.Millisecond)
		fmt.Println(typ, r.Code, "open:", w.inc.mqf.Open())
	}
	t1 := mk(1, "c3", false)
	feed()
	t2 := mk(0, "c2", true)
	feed()
	if os.Getenv("VERIF_SMOKE") != "3" {
		w.inc.kill()
		time.Sleep(time.Second)
		w.start(tf, true)
		fmt.Println("restart open:", w.inc.mqf.Open())
	}
	feed()
	t3 := mk(1, "c1", false)
	feed()
	op("resume", t2)
	feed()
	op("pause", t3)
	feed()
	op("delete", t3)
	op("delete", t2)
	op("delete", t1)
	time.Sleep(time.Second)
	fmt.Println("final open:", w.inc.mqf.Open())
	if len(w.inc.mqf.Open()) != 0 {
		t.Fatalf("leak")
	}
}

func TestSmokePauseFail(t *testing.T) {
	if os.Getenv("VERIF_SMOKE") == "" {
		t.Skip("set VERIF_SMOKE=1")
	}
	tf := tfatal{t}
	w := newWorld(tf, worldOpt{targets: 1})
	defer w.close(tf)
	w.start(tf, false)
	p := w.newProducer()
	defer p.close()
	c := w.addSourceCollection(tf, "default", "c1", 1, w.targets[0])
	p.tick(c.pch[0], 10)
	r := w.inc.post(tf, "create", map[string]any{"milvus_connect_param": map[string]any{"uri": w.uris[0], "connect_timeout": 3}, "collection_infos": []any{map[string]any{"name": "c1"}}})
	id, _ := r.Data["task_id"].(string)
	time.Sleep(1200 * time.Millisecond)
	fmt.Println("open after create:", w.inc.mqf.Open())
	if os.Getenv("VERIF_SMOKE") == "4" {
		w.inc.store.setHook(func(op *storeOp) error {
			if op.Kind == "info.put" {
				return fmt.Errorf("injected")
			}
			return nil
		})
		fmt.Println("pause#1", w.inc.post(tf, "pause", map[string]any{"task_id": id}).Code)
		w.inc.store.setHook(nil)
	}
	fmt.Println("pause#2", w.inc.post(tf, "pause", map[string]any{"task_id": id}).Code)
	time.Sleep(time.Second)
	fmt.Println("open after pause:", w.inc.mqf.Open())
	fmt.Println(quiesce.Dump())
}

// TestSmokeQuickRecreate: delete the only task of a target and create a new one at once, many times.
func TestSmokeQuickRecreate(t *testing.T) {
	if os.Getenv("VERIF_SMOKE") == "" {
		t.Skip("set VERIF_SMOKE=1")
	}
	tf := tfatal{t}
	w := newWorld(tf, worldOpt{targets: 1})
	defer w.close(tf)
	w.start(tf, false)
	p := w.newProducer()
	defer p.close()
	c := w.addSourceCollection(tf, "default", "c1", 1, w.targets[0])
	p.tick(c.pch[0], 10)
	req := map[string]any{"milvus_connect_param": map[string]any{"uri": w.uris[0], "connect_timeout": 3}, "collection_infos": []any{map[string]any{"name": "c1"}}}
	r := w.inc.post(tf, "create", req)
	id, _ := r.Data["task_id"].(string)
	for round := 0; round < 12; round++ {
		rows := p.insert(c, 0, 1, 10)
		p.tick(c.pch[0], 10)
		p.tick(c.pch[0], 10)
		ok := waitFor(6*time.Second, func() bool { return acceptedRows(w.targets[0])[rows[0]] > 0 })
		fmt.Println("round", round, "row arrived:", ok)
		if !ok {
			fmt.Println(quiesce.Dump())
			t.Fatalf("row did not arrive in round %d", round)
		}
		w.inc.post(tf, "delete", map[string]any{"task_id": id})
		r = w.inc.post(tf, "create", req)
		id, _ = r.Data["task_id"].(string)
	}
}
