package hserver

// C05, last clause: "Checkpoints of a collection whose drop has been replayed are frozen."
//
// One task replicates ca (2 shards) and cb (1 shard, on the source / target channel of ca's shard 0). After acknowledged traffic
// cb is dropped upstream (drop-collection message on its shard). Once the drop has been replayed downstream the checkpoint
// record of cb must be marked dropped and must never change again - whatever flows on the shared channel afterwards and across
// a pause/resume or a restart. Every checkpoint write of cb after the freeze is compared by the store monitor, the record is
// compared again at the end, and the drop must have been requested downstream exactly once.

import (
	"encoding/json"
	"fmt"
	"sync"
	"testing"
	"time"

	"pgregory.net/rapid"

	"github.com/zilliztech/milvus-cdc/core/pb"
	"github.com/zilliztech/milvus-cdc/server/model/meta"

	"verifharness/quiesce"
	"verifharness/stats"
)

func c05DropBody(t *rapid.T) {
	st := stats.New("C05")
	packerMax := rapid.SampledFrom([]int{1, 2, 4}).Draw(t, "packerMax")
	w := newWorld(t, worldOpt{targets: 1, packerMax: packerMax})
	defer w.close(t)
	p := w.newProducer()
	defer p.close()
	tgt := w.targets[0]
	cA := w.addSourceCollection(t, "default", "ca", 2, tgt)
	cB := w.addSourceCollection(t, "default", "cb", 1, tgt)
	pchs := []string{cA.pch[0], cA.pch[1]}
	for _, pc := range pchs {
		p.tick(pc, 10)
	}
	var mu sync.Mutex
	frozen := "" // JSON of cb's record once its drop has been replayed
	changed := ""
	recJSON := func(pos *meta.TaskCollectionPosition) string {
		b, _ := json.Marshal(map[string]any{"positions": pos.Positions, "op": pos.OpPositions, "target": pos.TargetPositions})
		return string(b)
	}
	monitor := func(op *storeOp) error {
		if pos, ok := op.Obj.(*meta.TaskCollectionPosition); ok && op.Kind == "pos.put" && pos.CollectionID == cB.id {
			mu.Lock()
			if frozen != "" && changed == "" && recJSON(pos) != frozen {
				changed = recJSON(pos)
			}
			mu.Unlock()
		}
		return nil
	}
	start := func(reload bool) {
		inc := w.prepare(t)
		inc.store.setHook(monitor)
		if reload {
			inc.cdc.ReloadTask()
		}
	}
	start(false)
	r := w.inc.post(t, "create", map[string]any{"milvus_connect_param": map[string]any{"uri": w.uris[0], "connect_timeout": 3},
		"collection_infos": []any{map[string]any{"name": "*"}}})
	if r.Code != 200 {
		t.Fatalf("VERIF-TROUBLE: create failed: %s", r.Raw)
	}
	task, _ := r.Data["task_id"].(string)
	arrived := func(rows []int64) func() bool {
		return func() bool {
			acc := acceptedRows(tgt)
			for _, r := range rows {
				if acc[r] == 0 {
					return false
				}
			}
			return true
		}
	}
	flowing := false
	for attempt := 0; attempt < 5 && !flowing; attempt++ {
		rows := append(append(p.insert(cA, 0, 1, 3), p.insert(cA, 1, 1, 3)...), p.insert(cB, 0, 1, 3)...)
		flowing = waitTicking(p, pchs, 4*time.Second, arrived(rows))
	}
	if !flowing {
		t.Fatalf("VERIF-TROUBLE: replication did not start")
	}
	cbRecord := func() *meta.TaskCollectionPosition {
		for _, pos := range w.listPositions(t, task) {
			if pos.CollectionID == cB.id {
				return pos
			}
		}
		return nil
	}
	if !waitTicking(p, pchs, 10*time.Second, func() bool { return cbRecord() != nil }) {
		t.Fatalf("VERIF-TROUBLE: no checkpoint of cb")
	}
	// ---- the drop
	nBefore := rapid.IntRange(0, 2).Draw(t, "rowsBeforeDrop")
	for i := 0; i < nBefore; i++ {
		p.insert(cB, 0, 1, 2)
		p.insert(cA, 0, 1, 2)
	}
	// what the source does: the catalog record goes to Dropping, the drop message is broadcast, the record goes to Dropped
	w.markCollectionState(t, cB, pb.CollectionState_CollectionDropping)
	p.dropCollection(cB, 3)
	w.markCollectionState(t, cB, pb.CollectionState_CollectionDropped)
	drops := func() int {
		n := 0
		for _, c := range tgt.Calls() {
			if c.Method == "DropCollection" && c.Info == "cb" && !c.Failed {
				n++
			}
		}
		return n
	}
	if !waitTicking(p, pchs, 15*time.Second, func() bool { return drops() > 0 }) {
		t.Fatalf("VERIF-TROUBLE C05: the drop of cb was not replayed within 15 s")
	}
	// the drop state is written right after the downstream call
	if !waitTicking(p, pchs, 10*time.Second, func() bool {
		rec := cbRecord()
		if rec == nil {
			return false
		}
		for _, pi := range rec.Positions {
			if !pi.Dropped {
				return false
			}
		}
		return len(rec.Positions) > 0
	}) {
		rec := cbRecord()
		t.Fatalf("VERIF-VIOLATION C05 (frozen after drop): the drop of cb has been replayed downstream but its checkpoint record is not marked dropped: %v", recJSON(rec))
	}
	quiesce.WaitStable(func() int { return tgt.NumCalls() }, 3*time.Second)
	mu.Lock()
	frozen = recJSON(cbRecord())
	mu.Unlock()
	// ---- traffic and lifecycle events after the drop
	after := rapid.SampledFrom([]string{"traffic", "pauseResume", "restart"}).Draw(t, "after")
	var rows []int64
	for i := 0; i < rapid.IntRange(1, 3).Draw(t, "rowsAfter"); i++ {
		rows = append(rows, p.insert(cA, 0, 1, 2)...)
		rows = append(rows, p.insert(cA, 1, 1, 2)...)
	}
	switch after {
	case "pauseResume":
		w.inc.post(t, "pause", map[string]any{"task_id": task})
		rows = append(rows, p.insert(cA, 0, 1, 2)...)
		if rr := w.inc.post(t, "resume", map[string]any{"task_id": task}); rr.Code != 200 {
			t.Fatalf("VERIF-VIOLATION C05: resume after the drop of a collection failed: %s", rr.Raw)
		}
	case "restart":
		w.inc.kill()
		quiesce.WaitStable(func() int { return tgt.NumCalls() }, 4*time.Second)
		start(true)
		rows = append(rows, p.insert(cA, 0, 1, 2)...)
	}
	ok := waitTicking(p, pchs, 12*time.Second, arrived(rows))
	quiesce.WaitStable(func() int { return tgt.NumCalls() }, 4*time.Second)
	mu.Lock()
	ch := changed
	mu.Unlock()
	if ch != "" {
		t.Fatalf("VERIF-VIOLATION C05 (frozen after drop): a checkpoint write changed the record of the dropped collection cb (%s)\nfrozen: %s\nwritten: %s", after, frozen, ch)
	}
	if rec := cbRecord(); rec == nil || recJSON(rec) != frozen {
		got := "<record removed>"
		if rec != nil {
			got = recJSON(rec)
		}
		t.Fatalf("VERIF-VIOLATION C05 (frozen after drop): the checkpoint record of the dropped collection cb changed (%s)\nfrozen: %s\n   now: %s", after, frozen, got)
	}
	if n := drops(); n != 1 {
		t.Fatalf("VERIF-VIOLATION C05: the drop of cb was requested downstream %d times (%s)", n, after)
	}
	if !ok {
		st.Count("inconclusive_rows_of_ca_after_drop(not arrived within the cap)", 1)
	}
	st.Class("drop_replayed_then_" + after)
	st.ClassIf(packerMax > 1, "batched_writes")
	st.NonTrivial(after != "traffic" || nBefore > 0)
	st.Fingerprint(fmt.Sprint("drop", packerMax, nBefore, after, len(rows)))
	st.Sample(map[string]any{"packer_max": packerMax, "rows_before_drop": nBefore, "after_the_drop": after})
	st.Done()
}

func TestC05_Drop(t *testing.T) { rapid.Check(t, c05DropBody) }
