package hserver

// C20 / C09 below the DataHandler seam: the REAL MilvusDataHandler (and the SDK client it drives) builds the gRPC requests the
// downstream actually receives. The writer-level checks observe the api.DataHandler parameters; here generated parameters are
// handed to the real handler and the request that arrives at the fake downstream is compared with them: the same user, role,
// privilege tuple (with its database), partitions, database names - and the database the call is routed to (dbname metadata).

import (
	"context"
	"fmt"
	"sync"
	"sync/atomic"
	"testing"

	"google.golang.org/protobuf/proto"
	"pgregory.net/rapid"

	"github.com/milvus-io/milvus-proto/go-api/v2/commonpb"
	"github.com/milvus-io/milvus-proto/go-api/v2/milvuspb"

	"github.com/zilliztech/milvus-cdc/core/api"
	"github.com/zilliztech/milvus-cdc/core/writer"

	"verifharness/fakes/milvus"
	"verifharness/stats"
)

var (
	realHandlerOnce sync.Once
	realHandlerSrv  *milvus.Server
	realHandler     *writer.MilvusDataHandler
	realHandlerErr  error
	realHandlerSeq  atomic.Int64
)

func realHandlerSetup() {
	realHandlerSrv = milvus.New("rh", 2)
	addr, err := realHandlerSrv.Start()
	if err != nil {
		realHandlerErr = err
		return
	}
	for _, db := range []string{"default", "db1"} {
		for _, c := range []string{"c1", "c2"} {
			realHandlerSrv.AddCollection(db, c, 1, "p1", "p2")
		}
	}
	realHandler, realHandlerErr = writer.NewMilvusDataHandler(writer.URIOption(addr), writer.TokenOption("root:Milvus"), writer.ConnectTimeoutOption(3))
}

type seenCall struct {
	method, db string
	req        proto.Message
}

func TestC20_RealHandler(t *testing.T) {
	realHandlerOnce.Do(realHandlerSetup)
	if realHandlerErr != nil {
		t.Fatalf("VERIF-TROUBLE real handler: %v", realHandlerErr)
	}
	rapid.Check(t, func(t *rapid.T) {
		sc := stats.New("C20")
		db := rapid.SampledFrom([]string{"", "default", "db1"}).Draw(t, "database")
		wantRoute := db
		if wantRoute == "" {
			wantRoute = "default"
		}
		coll := rapid.SampledFrom([]string{"c1", "c2"}).Draw(t, "collection")
		user := "u_" + rapid.StringMatching(`[a-z]{1,6}`).Draw(t, "user")
		role := "r_" + rapid.StringMatching(`[a-z]{1,6}`).Draw(t, "role")
		priv := rapid.SampledFrom([]string{"Insert", "Search", "Query", "Load", "CreateIndex"}).Draw(t, "privilege")
		object := rapid.SampledFrom([]string{"Collection", "Global"}).Draw(t, "object")
		objName := rapid.SampledFrom([]string{"c1", "c2", "*"}).Draw(t, "objectName")
		privDB := rapid.SampledFrom([]string{"default", "db1", "*"}).Draw(t, "privilegeDatabase")
		parts := rapid.SampledFrom([][]string{{"p1"}, {"p2"}, {"p1", "p2"}, {"p2", "p1"}}).Draw(t, "partitions")
		kind := rapid.SampledFrom([]string{"Grant", "Revoke", "AddUserRole", "RemoveUserRole", "CreateRole", "DropRole", "DeleteUser",
			"LoadPartitions", "ReleasePartitions", "CreatePartition", "DropPartition", "ReleaseCollection", "DropDatabase"}).Draw(t, "kind")
		var mu sync.Mutex
		var seen []seenCall
		realHandlerSrv.Before = func(cc *milvus.CallCtx) error {
			mu.Lock()
			defer mu.Unlock()
			if cc.Req != nil {
				seen = append(seen, seenCall{cc.Method, cc.DB, proto.Clone(cc.Req)})
			}
			return nil
		}
		defer func() { realHandlerSrv.Before = nil }()
		ctx := context.Background()
		rp := api.ReplicateParam{Database: db}
		base := &commonpb.MsgBase{ReplicateInfo: &commonpb.ReplicateInfo{IsReplicate: true, MsgTimestamp: 77}}
		var err error
		var method string
		var check func(req proto.Message)
		fail := func(format string, a ...any) {
			t.Fatalf("%s via the real handler: "+format, append([]any{kind}, a...)...)
		}
		entityOf := func(opType milvuspb.OperatePrivilegeType) *milvuspb.OperatePrivilegeRequest {
			return &milvuspb.OperatePrivilegeRequest{Base: base, Type: opType, Entity: &milvuspb.GrantEntity{
				Role: &milvuspb.RoleEntity{Name: role}, Object: &milvuspb.ObjectEntity{Name: object}, ObjectName: objName, DbName: privDB,
				Grantor: &milvuspb.GrantorEntity{Privilege: &milvuspb.PrivilegeEntity{Name: priv}}}}
		}
		switch kind {
		case "Grant", "Revoke":
			ot := milvuspb.OperatePrivilegeType_Grant
			if kind == "Revoke" {
				ot = milvuspb.OperatePrivilegeType_Revoke
			}
			src := entityOf(ot)
			err = realHandler.OperatePrivilege(ctx, &api.OperatePrivilegeParam{ReplicateParam: rp, OperatePrivilegeRequest: src})
			method = "OperatePrivilege"
			check = func(req proto.Message) {
				g := req.(*milvuspb.OperatePrivilegeRequest)
				e := g.GetEntity()
				if g.GetType() != ot || e.GetRole().GetName() != role || e.GetObject().GetName() != object || e.GetObjectName() != objName ||
					e.GetGrantor().GetPrivilege().GetName() != priv || e.GetDbName() != privDB {
					fail("the downstream receives %v, the source names type=%v role=%s object=%s objectName=%s privilege=%s database=%s", g, ot, role, object, objName, priv, privDB)
				}
			}
		case "AddUserRole", "RemoveUserRole":
			ot := milvuspb.OperateUserRoleType_AddUserToRole
			if kind == "RemoveUserRole" {
				ot = milvuspb.OperateUserRoleType_RemoveUserFromRole
			}
			err = realHandler.OperateUserRole(ctx, &api.OperateUserRoleParam{ReplicateParam: rp, OperateUserRoleRequest: &milvuspb.OperateUserRoleRequest{Base: base, Username: user, RoleName: role, Type: ot}})
			method = "OperateUserRole"
			check = func(req proto.Message) {
				g := req.(*milvuspb.OperateUserRoleRequest)
				if g.GetUsername() != user || g.GetRoleName() != role || g.GetType() != ot {
					fail("the downstream receives %v, the source names user=%s role=%s type=%v", g, user, role, ot)
				}
			}
		case "CreateRole":
			err = realHandler.CreateRole(ctx, &api.CreateRoleParam{ReplicateParam: rp, CreateRoleRequest: &milvuspb.CreateRoleRequest{Base: base, Entity: &milvuspb.RoleEntity{Name: role}}})
			method = "CreateRole"
			check = func(req proto.Message) {
				if g := req.(*milvuspb.CreateRoleRequest); g.GetEntity().GetName() != role {
					fail("the downstream receives role %q, the source names %q", g.GetEntity().GetName(), role)
				}
			}
		case "DropRole":
			err = realHandler.DropRole(ctx, &api.DropRoleParam{ReplicateParam: rp, DropRoleRequest: &milvuspb.DropRoleRequest{Base: base, RoleName: role}})
			method = "DropRole"
			check = func(req proto.Message) {
				if g := req.(*milvuspb.DropRoleRequest); g.GetRoleName() != role {
					fail("the downstream receives role %q, the source names %q", g.GetRoleName(), role)
				}
			}
		case "DeleteUser":
			err = realHandler.DeleteUser(ctx, &api.DeleteUserParam{ReplicateParam: rp, DeleteCredentialRequest: &milvuspb.DeleteCredentialRequest{Base: base, Username: user}})
			method = "DeleteCredential"
			check = func(req proto.Message) {
				if g := req.(*milvuspb.DeleteCredentialRequest); g.GetUsername() != user {
					fail("the downstream receives user %q, the source names %q", g.GetUsername(), user)
				}
			}
		case "LoadPartitions":
			err = realHandler.LoadPartitions(ctx, &api.LoadPartitionsParam{ReplicateParam: rp, LoadPartitionsRequest: &milvuspb.LoadPartitionsRequest{Base: base, CollectionName: coll, PartitionNames: parts, ReplicaNumber: 1}})
			method = "LoadPartitions"
			check = func(req proto.Message) {
				g := req.(*milvuspb.LoadPartitionsRequest)
				if g.GetCollectionName() != coll || fmt.Sprint(g.GetPartitionNames()) != fmt.Sprint(parts) {
					fail("the downstream receives %s%v, the source names %s%v", g.GetCollectionName(), g.GetPartitionNames(), coll, parts)
				}
			}
		case "ReleasePartitions":
			err = realHandler.ReleasePartitions(ctx, &api.ReleasePartitionsParam{ReplicateParam: rp, ReleasePartitionsRequest: &milvuspb.ReleasePartitionsRequest{Base: base, CollectionName: coll, PartitionNames: parts}})
			method = "ReleasePartitions"
			check = func(req proto.Message) {
				g := req.(*milvuspb.ReleasePartitionsRequest)
				if g.GetCollectionName() != coll || fmt.Sprint(g.GetPartitionNames()) != fmt.Sprint(parts) {
					fail("the downstream receives %s%v, the source names %s%v", g.GetCollectionName(), g.GetPartitionNames(), coll, parts)
				}
			}
		case "CreatePartition":
			// (unique per case: the handler does not create a partition that already exists downstream)
			pn := fmt.Sprintf("np_%s_%d", rapid.StringMatching(`[a-z]{1,5}`).Draw(t, "newPartition"), realHandlerSeq.Add(1))
			err = realHandler.CreatePartition(ctx, &api.CreatePartitionParam{MsgBaseParam: api.MsgBaseParam{Base: base}, ReplicateParam: rp, CollectionName: coll, PartitionName: pn})
			method = "CreatePartition"
			check = func(req proto.Message) {
				g := req.(*milvuspb.CreatePartitionRequest)
				if g.GetCollectionName() != coll || g.GetPartitionName() != pn {
					fail("the downstream receives %s/%s, the source names %s/%s", g.GetCollectionName(), g.GetPartitionName(), coll, pn)
				}
			}
		case "DropPartition":
			err = realHandler.DropPartition(ctx, &api.DropPartitionParam{MsgBaseParam: api.MsgBaseParam{Base: base}, ReplicateParam: rp, CollectionName: coll, PartitionName: "p_gone"})
			method = "DropPartition"
			check = func(req proto.Message) {
				g := req.(*milvuspb.DropPartitionRequest)
				if g.GetCollectionName() != coll || g.GetPartitionName() != "p_gone" {
					fail("the downstream receives %s/%s, the source names %s/p_gone", g.GetCollectionName(), g.GetPartitionName(), coll)
				}
			}
		case "ReleaseCollection":
			err = realHandler.ReleaseCollection(ctx, &api.ReleaseCollectionParam{ReplicateParam: rp, ReleaseCollectionRequest: &milvuspb.ReleaseCollectionRequest{Base: base, CollectionName: coll}})
			method = "ReleaseCollection"
			check = func(req proto.Message) {
				if g := req.(*milvuspb.ReleaseCollectionRequest); g.GetCollectionName() != coll {
					fail("the downstream receives collection %q, the source names %q", g.GetCollectionName(), coll)
				}
			}
		case "DropDatabase":
			gone := "gone_" + rapid.StringMatching(`[a-z]{1,5}`).Draw(t, "goneDB")
			err = realHandler.DropDatabase(ctx, &api.DropDatabaseParam{ReplicateParam: rp, DropDatabaseRequest: &milvuspb.DropDatabaseRequest{Base: base, DbName: gone}})
			method = "DropDatabase"
			check = func(req proto.Message) {
				if g := req.(*milvuspb.DropDatabaseRequest); g.GetDbName() != gone {
					fail("the downstream receives database %q, the source names %q", g.GetDbName(), gone)
				}
			}
		}
		if err != nil {
			t.Fatalf("VERIF-TROUBLE %s via the real handler failed: %v", kind, err)
		}
		mu.Lock()
		var hit []seenCall
		for _, c := range seen {
			if c.method == method {
				hit = append(hit, c)
			}
		}
		mu.Unlock()
		if len(hit) != 1 {
			t.Fatalf("%s via the real handler: %d %s requests reached the downstream", kind, len(hit), method)
		}
		check(hit[0].req)
		collScoped := kind == "LoadPartitions" || kind == "ReleasePartitions" || kind == "CreatePartition" || kind == "DropPartition" || kind == "ReleaseCollection"
		if collScoped && hit[0].db != wantRoute {
			t.Fatalf("%s on a collection of database %q is routed to database %q", kind, wantRoute, hit[0].db)
		}
		sc.Class("real-handler:" + kind)
		sc.NonTrivial(kind == "Grant" || kind == "Revoke" || len(parts) > 1)
		sc.Fingerprint(fmt.Sprint(kind, db, coll, user, role, priv, object, objName, privDB, parts))
		sc.Sample(map[string]any{"kind": kind, "database": db, "request": fmt.Sprint(hit[0].req)})
		sc.Done()
	})
}
