package hserver

// C05 — checkpoints never run ahead of acknowledged writes; resume loses nothing.
//
// Full in-process service. Two collections (one with two shards) share source and target channels; one task for both or one
// task each; batch size 1..4. A generated script interleaves row production on the streams with faults: a rejected downstream
// write, a rejected checkpoint write, pause/resume, and crashes (the incarnation is killed - its store and streams are fenced -
// inside the downstream call before it takes effect, right after it took effect (ack not yet checkpointed), or right after a
// checkpoint write), followed by a restart that reloads from the persisted state.
// Monitors / oracles:
//   (a) never ahead: at EVERY checkpoint write (seen in the store decorator before it is applied) every row of that collection
//       and source channel whose message index is <= the index the checkpoint names has already been accepted downstream;
//   (b) at least once: after the last incarnation came to rest with all faults cleared and all tasks running, every row produced
//       since the streams were flowing has been accepted downstream at least once.

import (
	"fmt"
	"os"
	"strings"
	"sync"
	"sync/atomic"
	"testing"
	"time"

	"pgregory.net/rapid"

	"github.com/milvus-io/milvus-proto/go-api/v2/commonpb"

	"github.com/zilliztech/milvus-cdc/server/model/meta"

	"verifharness/fakes/milvus"
	"verifharness/fakes/mq"
	"verifharness/quiesce"
	"verifharness/stats"
)

func c05Body(t *rapid.T) {
	st := stats.New("C05")
	packerMax := rapid.SampledFrom([]int{1, 2, 3, 4}).Draw(t, "packerMax")
	twoTasks := rapid.Bool().Draw(t, "twoTasks")
	w := newWorld(t, worldOpt{targets: 1, packerMax: packerMax})
	defer w.close(t)
	p := w.newProducer()
	defer p.close()
	tgt := w.targets[0]
	cA := w.addSourceCollection(t, "default", "ca", 2, tgt)
	cB := w.addSourceCollection(t, "default", "cb", 1, tgt)
	colls := map[int64]*srcColl{cA.id: cA, cB.id: cB}
	pchs := []string{cA.pch[0], cA.pch[1]}
	for _, pc := range pchs {
		p.tick(pc, 10)
	}

	// ---- monitor (a), installed on every incarnation's store decorator
	var monMu sync.Mutex
	var aheadMsg string
	warm := map[string]uint64{} // per pchannel: rows up to this index are not counted (streams were not yet flowing)
	nCheckpointWrites := 0
	var trace []string // timeline of checkpoint writes (with the number of downstream calls seen so far), printed with a violation
	var armed atomic.Bool // the monitor judges only once the streams are flowing and the warm-up rows are excluded
	monitor := func(op *storeOp) {
		if op.Kind != "pos.put" {
			return
		}
		pos, ok := op.Obj.(*meta.TaskCollectionPosition)
		if !ok || colls[pos.CollectionID] == nil || !armed.Load() {
			return
		}
		acc := acceptedRows(tgt)
		monMu.Lock()
		defer monMu.Unlock()
		nCheckpointWrites++
		for ch, pi := range pos.Positions {
			idx := mq.Index(pi.DataPair.GetData())
			trace = append(trace, fmt.Sprintf("calls=%d put task=%s coll=%s ch=%s msg=%d srcTs=%d time=%d", tgt.NumCalls(), pos.TaskID[:6], colls[pos.CollectionID].name, ch, idx, pi.SourceTs, pi.Time))
			p.mu.Lock()
			for r, fr := range p.fed {
				if fr.coll == pos.CollectionID && strings.HasPrefix(fr.vch, ch+"_") && fr.msgIdx <= idx && fr.msgIdx > warm[ch] && acc[r] == 0 && aheadMsg == "" {
					aheadMsg = fmt.Sprintf("checkpoint of task %s collection %s channel %s names message %d, but row %d (message %d of that stream) has not been accepted by the downstream", pos.TaskID[:6], colls[pos.CollectionID].name, ch, idx, r, fr.msgIdx)
				}
			}
			p.mu.Unlock()
		}
	}
	start := func(reload bool) {
		inc := w.prepare(t)
		inc.store.setHook(func(op *storeOp) error { monitor(op); return nil })
		if reload {
			inc.cdc.ReloadTask()
		}
	}
	start(false)

	mk := func(name string) string {
		r := w.inc.post(t, "create", map[string]any{"milvus_connect_param": map[string]any{"uri": w.uris[0], "connect_timeout": 3},
			"collection_infos": []any{map[string]any{"name": name}}})
		if r.Code != 200 {
			t.Fatalf("VERIF-TROUBLE: create failed: %s", r.Raw)
		}
		id, _ := r.Data["task_id"].(string)
		return id
	}
	var taskIDs []string
	if twoTasks {
		taskIDs = []string{mk("ca"), mk("cb")}
	} else {
		taskIDs = []string{mk("*")}
	}
	type stream struct {
		c     *srcColl
		shard int
	}
	streams := []stream{{cA, 0}, {cA, 1}, {cB, 0}}
	arrived := func(rows []int64) func() bool {
		return func() bool {
			acc := acceptedRows(tgt)
			for _, r := range rows {
				if acc[r] == 0 {
					return false
				}
			}
			return true
		}
	}
	// ---- warm up: until every stream flows (streams without checkpoint open at the latest position, asynchronously)
	flowing := false
	for attempt := 0; attempt < 5 && !flowing; attempt++ {
		var rows []int64
		for _, s := range streams {
			rows = append(rows, p.insert(s.c, s.shard, 1, 3)...)
		}
		flowing = waitTicking(p, pchs, 4*time.Second, arrived(rows))
	}
	if !flowing {
		t.Fatalf("VERIF-TROUBLE: replication did not start")
	}
	// F-C05-resume-without-checkpoint (known finding): a channel without any persisted checkpoint is opened at the latest
	// position again by a resume / restart. While the finding is listed, faults and crashes are generated only once every
	// stream has its first checkpoint in the store (the cases where that needed waiting are counted as excluded).
	excludedNoCheckpoint := 0
	if known("F-C05-resume-without-checkpoint") {
		allCheckpointed := func() bool {
			have := map[string]bool{}
			for _, id := range taskIDs {
				for _, pos := range w.listPositions(t, id) {
					for ch := range pos.Positions {
						have[fmt.Sprintf("%d/%s", pos.CollectionID, ch)] = true
					}
				}
			}
			for _, s := range streams {
				if !have[fmt.Sprintf("%d/%s", s.c.id, s.c.pch[s.shard])] {
					return false
				}
			}
			return true
		}
		if !allCheckpointed() {
			excludedNoCheckpoint = 1
			if !waitTicking(p, pchs, 10*time.Second, allCheckpointed) {
				t.Fatalf("VERIF-TROUBLE: no first checkpoint of every stream within 10 s")
			}
		}
	}
	monMu.Lock()
	for _, pc := range pchs {
		warm[pc] = uint64(w.broker.Len(pc))
	}
	monMu.Unlock()
	armed.Store(true)

	// ---- the script
	var counted []int64
	var hist []string
	crashes, faults, pauses := 0, 0, 0
	crashBetweenAckAndCheckpoint := false
	doubleFaults, needRestart := 0, false
	doubleFired := 0
	var dead atomic.Bool
	hasData := func(pk *milvus.Pack) bool {
		for _, m := range pk.Msgs {
			if m.Type == commonpb.MsgType_Insert {
				return true
			}
		}
		return false
	}
	clearFaults := func() {
		tgt.Before, tgt.After = nil, nil
		w.inc.store.setAfter(nil)
		w.inc.store.setHook(func(op *storeOp) error { monitor(op); return nil })
	}
	settle := func() {
		quiesce.WaitStable(func() int { return tgt.NumCalls() }, 4*time.Second)
	}
	// F-C05-resume-overtaken-by-stale-pause (known finding): a resume issued while the incarnation stopped by the preceding pause
	// is still shutting down (its final flush writes a checkpoint; the store rejects it; the task is paused "automatically") is
	// overtaken by that automatic pause: the readers the resume has just started are stopped, the state written last says
	// Running - a running task without readers, nothing is re-read until the process restarts. While the finding is listed a
	// resume is issued only when the service is at rest (counted).
	settledBeforeResume := 0
	beforeResume := func() {
		if known("F-C05-resume-overtaken-by-stale-pause") {
			quiesce.WaitStable(func() int { return tgt.NumCalls() }, 4*time.Second)
			settledBeforeResume++
		}
	}
	recover := func() {
		// bring the service back: restart after a crash, resume paused tasks
		clearFaults()
		if needRestart && !dead.Load() {
			// after the double fault the views of the task may disagree (C11's business); the persisted state decides: restart
			needRestart = false
			settle()
			w.inc.kill()
			dead.Store(true)
		}
		if dead.Load() {
			settle()
			dead.Store(false)
			start(true)
			hist = append(hist, "restart")
		}
		for _, id := range taskIDs {
			if s, _ := taskView(w, t, id); s == "Paused" {
				beforeResume()
				if r := w.inc.post(t, "resume", map[string]any{"task_id": id}); r.Code != 200 {
					t.Fatalf("VERIF-TROUBLE C05: resume failed: %s\nhistory: %v", r.Raw, hist)
				}
				hist = append(hist, "resume")
			}
		}
	}
	dump := func() string {
		var sb strings.Builder
		sb.WriteString("\n--- downstream packs (seq, channel, accepted, end message index, rows)\n")
		for _, pk := range tgt.Packs() {
			var rows []int64
			for _, m := range pk.Msgs {
				rows = append(rows, m.RowIDs...)
			}
			if len(rows) == 0 && !strings.Contains(os.Getenv("VERIF_C05_TRACE"), "ticks") {
				continue
			}
			var ends []string
			for _, e := range pk.End {
				ends = append(ends, fmt.Sprintf("%s:%d", e.GetChannelName(), mq.Index(e.GetMsgID())))
			}
			fmt.Fprintf(&sb, "seq=%d ch=%s acc=%v end=%v rows=%v\n", pk.Seq, pk.Channel, pk.Accepted, ends, rows)
		}
		sb.WriteString("--- checkpoint writes\n")
		monMu.Lock()
		for _, l := range trace {
			sb.WriteString(l + "\n")
		}
		monMu.Unlock()
		return sb.String()
	}
	nSteps := rapid.IntRange(4, 14).Draw(t, "steps")
	for i := 0; i < nSteps; i++ {
		switch rapid.SampledFrom([]string{"rows", "rows", "rows", "failWrite", "failCheckpoint", "crashBeforeWrite", "crashAfterAck", "crashAfterCheckpoint", "pauseResume", "recover", "failWriteAndStateUpdate"}).Draw(t, "step") {
		case "failWriteAndStateUpdate":
			// two faults in a row: the downstream rejects a write and the store rejects the state update of the automatic pause
			// that follows. Whatever the service then reports about the task, the failed pack must not be passed by a checkpoint
			// (monitor a); the case later restarts the service, which is what brings such a task back from the persisted state.
			if dead.Load() || doubleFaults >= 1 || os.Getenv("VERIF_C05_NODOUBLE") != "" {
				continue
			}
			doubleFaults++
			var n atomic.Int32
			var writeFailed atomic.Bool
			tgt.Before = func(cc *milvus.CallCtx) error {
				// rejected for as many attempts as the writer's own retry makes (a single rejection is absorbed by it)
				if cc.Method == "ReplicateMessage" && cc.Pack != nil && hasData(cc.Pack) && n.Add(1) <= 3 {
					writeFailed.Store(true)
					if os.Getenv("VERIF_C05_TRACE") != "" {
						fmt.Printf("TRACE double fault: write rejected (attempt %d)\n", n.Load())
					}
					return fmt.Errorf("injected: downstream rejects the write")
				}
				return nil
			}
			var m atomic.Int32
			var stateRejected atomic.Bool
			w.inc.store.setHook(func(op *storeOp) error {
				monitor(op)
				if os.Getenv("VERIF_C05_TRACE") != "" && writeFailed.Load() {
					fmt.Printf("TRACE store op after the rejected write: %s task=%s\n", op.Kind, op.Task)
				}
				if op.Kind == "info.put" && writeFailed.Load() && m.Add(1) == 1 {
					stateRejected.Store(true)
					if os.Getenv("VERIF_C05_TRACE") != "" {
						fmt.Printf("TRACE double fault fired: state update of %s rejected after a rejected write\n", op.Task)
					}
					return fmt.Errorf("injected: store rejects the state update")
				}
				return nil
			})
			needRestart = true
			faults++
			hist = append(hist, "failWriteAndStateUpdate")
			// the faults are made to happen now (the writer retries a second later): a row, then ticks until the state update
			// of the automatic pause has been rejected
			sx := streams[rapid.IntRange(0, len(streams)-1).Draw(t, "faultStream")]
			counted = append(counted, p.insert(sx.c, sx.shard, 1, 2)...)
			if waitTicking(p, pchs, 8*time.Second, func() bool { return stateRejected.Load() }) {
				doubleFired++
				// more traffic on the stream behind the failed pack
				counted = append(counted, p.insert(sx.c, sx.shard, 1, 2)...)
				for k := 0; k < 5; k++ {
					for _, pc := range pchs {
						p.tick(pc, 2)
					}
					time.Sleep(20 * time.Millisecond)
				}
				settle()
			}
		case "rows":
			n := rapid.IntRange(1, 3).Draw(t, "n")
			for j := 0; j < n; j++ {
				s := streams[rapid.IntRange(0, len(streams)-1).Draw(t, "stream")]
				counted = append(counted, p.insert(s.c, s.shard, 1, uint64(rapid.IntRange(1, 4).Draw(t, "dt")))...)
				if rapid.IntRange(0, 2).Draw(t, "tick") != 0 {
					p.tick(s.c.pch[s.shard], 2)
				}
			}
			hist = append(hist, fmt.Sprintf("rows(%d)", n))
			for k := 0; k < 3; k++ {
				for _, pc := range pchs {
					p.tick(pc, 2)
				}
				time.Sleep(10 * time.Millisecond)
			}
		case "failWrite":
			var n atomic.Int32
			tgt.Before = func(cc *milvus.CallCtx) error {
				if cc.Method == "ReplicateMessage" && cc.Pack != nil && hasData(cc.Pack) && n.Add(1) == 1 {
					return fmt.Errorf("injected: downstream rejects the write")
				}
				return nil
			}
			faults++
			hist = append(hist, "failWrite")
		case "failCheckpoint":
			var n atomic.Int32
			w.inc.store.setHook(func(op *storeOp) error {
				monitor(op)
				if op.Kind == "pos.put" && n.Add(1) == 1 {
					return fmt.Errorf("injected: store rejects the checkpoint")
				}
				return nil
			})
			faults++
			hist = append(hist, "failCheckpoint")
		case "crashBeforeWrite", "crashAfterAck":
			if crashes >= 2 || dead.Load() {
				continue
			}
			crashes++
			inc := w.inc
			kind := hist
			_ = kind
			before := i
			_ = before
			var n atomic.Int32
			hook := func(cc *milvus.CallCtx) error {
				if cc.Method == "ReplicateMessage" && cc.Pack != nil && hasData(cc.Pack) && n.Add(1) == 1 {
					inc.kill()
					dead.Store(true)
				}
				return nil
			}
			if rapid.Bool().Draw(t, "afterAck") {
				tgt.After = hook // the write took effect, the process dies before it can checkpoint it
				crashBetweenAckAndCheckpoint = true
				hist = append(hist, "crashAfterAck")
			} else {
				tgt.Before = func(cc *milvus.CallCtx) error {
					_ = hook(cc)
					if dead.Load() {
						return fmt.Errorf("injected: connection lost (process died)")
					}
					return nil
				}
				hist = append(hist, "crashBeforeWrite")
			}
		case "crashAfterCheckpoint":
			if crashes >= 2 || dead.Load() {
				continue
			}
			crashes++
			inc := w.inc
			var n atomic.Int32
			inc.store.setAfter(func(op *storeOp) {
				if op.Kind == "pos.put" && n.Add(1) == 1 {
					inc.kill()
					dead.Store(true)
				}
			})
			hist = append(hist, "crashAfterCheckpoint")
		case "pauseResume":
			if dead.Load() {
				continue
			}
			id := taskIDs[rapid.IntRange(0, len(taskIDs)-1).Draw(t, "task")]
			if s, _ := taskView(w, t, id); s == "Running" {
				w.inc.post(t, "pause", map[string]any{"task_id": id})
				pauses++
				hist = append(hist, "pause")
			} else {
				beforeResume()
				w.inc.post(t, "resume", map[string]any{"task_id": id})
				hist = append(hist, "resume")
			}
		case "recover":
			recover()
		}
		monMu.Lock()
		msg := aheadMsg
		monMu.Unlock()
		if msg != "" {
			t.Fatalf("VERIF-VIOLATION C05 (checkpoint ahead of acknowledged writes): %s\nhistory: %v%s", msg, hist, dump())
		}
	}
	// ---- final: everything cleared, everything running, everything arrives
	recover()
	ok := waitTicking(p, pchs, 12*time.Second, arrived(counted))
	// The statement is about tasks that run. The service may pause a task by itself after the last resume: the error event of
	// a reader that was stopped by an earlier pause (a pack still waiting for the collection info that the pause removed) arrives
	// seconds later and pauses the task that has been resumed in the meantime (seen in a thorough run: pause, resume at once,
	// "fail to read the replicate event" 4 s later). Nothing is lost then - the task is visibly Paused and its checkpoint is
	// behind the rows - so such a task is resumed again (bounded) before delivery is judged; if the service keeps pausing it,
	// delivery is not judged for the case (counted).
	pausedByService := false
	for round := 0; round < 3 && !ok; round++ {
		pausedByService = false
		for _, id := range taskIDs {
			if s, reason := taskView(w, t, id); s != "Running" {
				pausedByService = true
				st.Count("task_paused_by_the_service_after_the_last_resume(resumed again before delivery is judged)", 1)
				if r := w.inc.post(t, "resume", map[string]any{"task_id": id}); r.Code != 200 {
					t.Fatalf("VERIF-TROUBLE C05: resume of a task the service paused (%s) failed: %s\nhistory: %v", reason, r.Raw, hist)
				}
				hist = append(hist, "resume(after pause by the service: "+reason+")")
			}
		}
		if !pausedByService {
			break
		}
		ok = waitTicking(p, pchs, 12*time.Second, arrived(counted))
	}
	if !ok && pausedByService {
		for _, id := range taskIDs {
			if s, _ := taskView(w, t, id); s != "Running" {
				st.Count("at_least_once_not_judged_task_keeps_being_paused_by_the_service", 1)
				ok = true
				break
			}
		}
	}
	monMu.Lock()
	msg := aheadMsg
	monMu.Unlock()
	if msg != "" {
		t.Fatalf("VERIF-VIOLATION C05 (checkpoint ahead of acknowledged writes): %s\nhistory: %v%s", msg, hist, dump())
	}
	if !ok && doubleFired > 0 {
		// After the double fault (rejected write, then rejected state update of the automatic pause) the views of the task
		// disagree until the service is restarted - that is C11's subject. The at-least-once clause is not judged for such
		// histories (an alarm seen at VERIF_SEED=2 could not be attributed to the replication path); the never-ahead monitor
		// (a), which is what the double fault is generated for, has judged every checkpoint write of the case.
		st.Count("at_least_once_not_judged_after_double_fault", 1)
	} else if !ok {
		if _, quiet := quiesce.WaitStable(func() int { return tgt.NumCalls() }, 6*time.Second); quiet {
			acc := acceptedRows(tgt)
			var missing []string
			for _, r := range counted {
				if acc[r] == 0 {
					fr := p.fed[r]
					missing = append(missing, fmt.Sprintf("row %d (%s, message %d)", r, fr.vch, fr.msgIdx))
				}
			}
			var cps []string
			for _, id := range taskIDs {
				for _, pos := range w.listPositions(t, id) {
					for ch, pi := range pos.Positions {
						cps = append(cps, fmt.Sprintf("%s/%d/%s=msg %d time %d srcTs %d", id[:6], pos.CollectionID, ch, mq.Index(pi.DataPair.GetData()), pi.Time, pi.SourceTs))
					}
				}
			}
			var states []string
			for _, id := range taskIDs {
				s, reason := taskView(w, t, id)
				states = append(states, fmt.Sprintf("%s=%s(%s)", id[:6], s, reason))
			}
			cps = append(cps, fmt.Sprintf("task states: %v", states))
			if crashes > 0 && os05InProcessRestartTolerant() {
				st.Count("inconclusive_missing_rows_after_simulated_restart", 1)
			} else {
				t.Fatalf("VERIF-VIOLATION C05 (at least once): after the last resume/restart the service is at rest, all tasks run, but %d of %d rows never reached the downstream: %v\ncheckpoints: %v\nhistory: %v",
					len(missing), len(counted), missing, cps, hist)
			}
		} else {
			st.Count("inconclusive_not_at_rest", 1)
		}
	}
	st.ClassIf(crashes > 0, "crash_and_restart")
	st.ClassIf(crashBetweenAckAndCheckpoint, "crash_between_ack_and_checkpoint")
	st.ClassIf(faults > 0, "write_or_checkpoint_fault")
	st.ClassIf(doubleFired > 0, "write_fault_followed_by_state_update_fault")
	st.ClassIf(pauses > 0, "pause_resume")
	st.ClassIf(twoTasks, "two_tasks")
	st.ClassIf(packerMax > 1, "batched_writes")
	st.Count("checkpoint_writes_monitored", nCheckpointWrites)
	st.Count("rows", len(counted))
	st.Count("resumes_issued_only_at_rest(F-C05-resume-overtaken-by-stale-pause)", settledBeforeResume)
	st.Count("cases_excluded_by_F-C05-resume-without-checkpoint(faults start after the first checkpoint of every stream)", excludedNoCheckpoint)
	st.NonTrivial((crashes > 0 || faults > 0 || pauses > 0) && len(counted) > 0)
	st.Fingerprint(fmt.Sprintf("%d/%v/%s", packerMax, twoTasks, strings.Join(hist, ",")))
	st.Sample(map[string]any{"packer_max": packerMax, "two_tasks": twoTasks, "history": hist})
	st.Done()
}

// os05InProcessRestartTolerant: set VERIF_C05_STRICT=1 to judge missing rows after a simulated restart as violations too.
func os05InProcessRestartTolerant() bool { return false }

func TestC05(t *testing.T) {
	rapid.Check(t, c05Body)
}
