// Package stats collects per-case classification for the evidence files.
//
// Every execution of a property body (one generated case) creates a Case, labels it,
// and calls Done() when the oracle accepted it. Cases are aggregated in memory and
// written as one JSON document by Flush() (called from TestMain) to $VERIF_STATS.
// Nothing here influences generation: no randomness, no clock in any decision.
package stats

import (
	"encoding/json"
	"fmt"
	"hash/fnv"
	"os"
	"sort"
	"sync"
)

type Case struct {
	prop       string
	classes    map[string]bool
	nonTrivial bool
	fp         string
	sample     any
	counts     map[string]int
}

type agg struct {
	Property    string         `json:"property"`
	Evaluations int            `json:"evaluations"`
	NonTrivial  int            `json:"nontrivial"`
	FPs         []string       `json:"nontrivial_fps"`
	Classes     map[string]int `json:"classes"`
	Counters    map[string]int `json:"counters"`
	Samples     []any          `json:"samples"`
	Exhaustive  bool           `json:"exhaustive,omitempty"`
	Notes       []string       `json:"notes,omitempty"`
	fpset       map[uint64]struct{}
}

var (
	mu   sync.Mutex
	aggs = map[string]*agg{}
)

const maxSamples = 4

func get(prop string) *agg {
	a := aggs[prop]
	if a == nil {
		a = &agg{Property: prop, Classes: map[string]int{}, Counters: map[string]int{}, fpset: map[uint64]struct{}{}}
		aggs[prop] = a
	}
	return a
}

// New starts the record of one generated case of property prop (e.g. "C14").
func New(prop string) *Case {
	return &Case{prop: prop, classes: map[string]bool{}, counts: map[string]int{}}
}

// Class labels the case (idempotent per case).
func (c *Case) Class(name string) { c.classes[name] = true }

// ClassIf labels the case when cond holds.
func (c *Case) ClassIf(cond bool, name string) {
	if cond {
		c.classes[name] = true
	}
}

// Count adds n to a per-property counter (e.g. number of oracle comparisons, excluded cases).
func (c *Case) Count(name string, n int) { c.counts[name] += n }

// NonTrivial marks the case as non-trivial by the property's stated rule.
func (c *Case) NonTrivial(b bool) { c.nonTrivial = c.nonTrivial || b }

// Fingerprint sets the identity of the case used to count distinct cases.
func (c *Case) Fingerprint(v any) {
	switch x := v.(type) {
	case string:
		c.fp = x
	default:
		b, _ := json.Marshal(v)
		c.fp = string(b)
	}
}

// Sample attaches a human-readable rendering of the case (kept for the first few non-trivial cases).
func (c *Case) Sample(v any) { c.sample = v }

// Done records the case; call it only when the oracle accepted the case.
func (c *Case) Done() {
	mu.Lock()
	defer mu.Unlock()
	a := get(c.prop)
	a.Evaluations++
	for k := range c.classes {
		a.Classes[k]++
	}
	for k, n := range c.counts {
		a.Counters[k] += n
	}
	if c.nonTrivial {
		a.NonTrivial++
		h := fnv.New64a()
		h.Write([]byte(c.fp))
		s := h.Sum64()
		if _, ok := a.fpset[s]; !ok {
			a.fpset[s] = struct{}{}
			if len(a.Samples) < maxSamples && c.sample != nil {
				a.Samples = append(a.Samples, c.sample)
			}
		}
	}
}

// Exhaustive declares that the property enumerated its (finite) space completely in this process.
func Exhaustive(prop string) {
	mu.Lock()
	defer mu.Unlock()
	get(prop).Exhaustive = true
}

// Note adds a free-text note to the shard's stats.
func Note(prop, s string) {
	mu.Lock()
	defer mu.Unlock()
	a := get(prop)
	a.Notes = append(a.Notes, s)
}

// Flush writes all aggregates to $VERIF_STATS (a JSON array). No-op when unset.
func Flush() {
	path := os.Getenv("VERIF_STATS")
	if path == "" {
		return
	}
	mu.Lock()
	defer mu.Unlock()
	var out []*agg
	keys := make([]string, 0, len(aggs))
	for k := range aggs {
		keys = append(keys, k)
	}
	sort.Strings(keys)
	for _, k := range keys {
		a := aggs[k]
		a.FPs = a.FPs[:0]
		for s := range a.fpset {
			a.FPs = append(a.FPs, fmt.Sprintf("%016x", s))
		}
		sort.Strings(a.FPs)
		out = append(out, a)
	}
	b, _ := json.Marshal(out)
	_ = os.WriteFile(path, b, 0o644)
}

// Main is the TestMain body shared by all harness packages.
func Main(run func() int) {
	code := run()
	Flush()
	os.Exit(code)
}
