package hreader

// C03, clause "in a pack that carries data the pack's begin/end timestamps, the message and per-row timestamps and the position
// timestamps agree with each other" when two collections read the SAME source physical channel: the pinned msgdispatcher cuts
// one upstream pack into one pack per collection and hands the same position objects to all of them. Each collection's pack is
// re-timed on its way out; the packs must not disturb each other through the shared objects.

import (
	"fmt"
	"testing"
	"time"

	"pgregory.net/rapid"

	"github.com/milvus-io/milvus-proto/go-api/v2/msgpb"

	"verifharness/stats"
)

func TestC03_SharedPositions(t *testing.T) {
	rapid.Check(t, func(t *rapid.T) {
		sc := stats.New("C03")
		w := newWorld(worldOpts{ttIntervalMs: rapid.SampledFrom([]int{1, 10000000}).Draw(t, "ttInterval"), bufSize: rapid.SampledFrom([]int{4, 16}).Draw(t, "bufSize")})
		defer w.close()
		nc := rapid.IntRange(2, 3).Draw(t, "collections")
		var streams []*streamDef
		for i := 0; i < nc; i++ {
			c := w.addCollection(i, "default", []int{0}, []int{0}, []*partDef{{name: "_default"}}, false)
			st := c.streams[0]
			st.posKd = rapid.SampledFrom([]string{"nil", "pchannel"}).Draw(t, "positionKind")
			if err := w.start(c); err != nil {
				t.Fatalf("VERIF-TROUBLE start: %v", err)
			}
			if !w.waitRegistered(st, 20*time.Second) {
				t.Fatalf("VERIF-TROUBLE stream %s not registered", st.srcV)
			}
			streams = append(streams, st)
		}
		// upstream packs of the shared source channel: every one is cut into a twin pack per collection
		tag := int64(0)
		cur := ts(1700000000000, 0)
		n := rapid.IntRange(1, 5).Draw(t, "upstreamPacks")
		twins := 0
		for k := 0; k < n; k++ {
			begin := cur
			end := cur + uint64(rapid.IntRange(4, 12).Draw(t, "span"))
			id := []byte(fmt.Sprintf("up%d", k))
			sh := &sharedPositions{
				start: []*msgpb.MsgPosition{{ChannelName: srcPChan(0), MsgID: id, MsgGroup: "grp", Timestamp: begin}},
				end:   []*msgpb.MsgPosition{{ChannelName: srcPChan(0), MsgID: id, MsgGroup: "grp", Timestamp: end}},
			}
			withData := 0
			for _, st := range streams {
				p := &packDef{stream: st, idx: k, id: id, begin: begin, end: end, shared: sh}
				mt := begin
				for m := rapid.IntRange(0, 2).Draw(t, "msgs"); m > 0 && mt+1 < end; m-- {
					mt += uint64(rapid.IntRange(1, 2).Draw(t, "dts"))
					if mt > end {
						mt = end
					}
					tag++
					p.msgs = append(p.msgs, &msgDef{kind: rapid.SampledFrom([]string{"insert", "delete"}).Draw(t, "kind"), ts: mt, tag: tag, rows: 1, part: st.coll.parts[0], pack: p})
				}
				if len(p.msgs) > 0 {
					withData++
				}
				st.script = append(st.script, p)
			}
			if withData >= 2 {
				twins++
			}
			cur = end + uint64(rapid.IntRange(1, 3).Draw(t, "gap"))<<18
		}
		// the dispatcher delivers the twin packs of one upstream pack to their collections one after the other
		for k := 0; k < n; k++ {
			for _, i := range rapid.Permutation(seq(nc)).Draw(t, "deliveryOrder") {
				w.feedNext(streams[i])
			}
		}
		if busy, ok := w.quiesce(30 * time.Second); !ok {
			t.Fatalf("VERIF-TROUBLE quiescence not reached: %s", busy)
		}
		out, _ := w.snapshot()
		dp := checkC03(t, w, tgtPChan(0), out)
		sc.Class("twin-packs-sharing-position-objects")
		sc.ClassIf(twins > 0, "two-collections-with-data-in-one-upstream-pack")
		sc.Count("data_packs", dp)
		sc.NonTrivial(twins > 0)
		sc.Fingerprint(fmt.Sprint(w.describe(), n, twins))
		sc.Sample(map[string]any{"streams": w.describe(), "upstream_packs": n, "upstream_packs_with_data_for_two_collections": twins})
		sc.Done()
	})
}
