package hreader

// C03, resume clause: "... and across pause/resume or restart when streams are resumed from the persisted checkpoint".
//
// Phase 1: 2..3 streams with skewed clocks share one downstream channel; a prefix of every script is fed and emitted.
// The checkpoint of every stream is taken from its last emitted pack exactly as the server persists it (source message id,
// target time of the pack, source end time). Then the manager is closed (a pause of the whole target, or - with a fresh ts
// manager - a process restart) and a new one resumes a drawn non-empty subset of the streams, in a drawn order, with the seek
// position and channel start time the server derives from the checkpoint (cdc_impl.go startInternal, restated here).
// Phase 2 feeds the rest of the scripts. Oracle: on the downstream channel time never goes back across the resume (closing ticks
// of phase 2 >= the last closing tick of phase 1, every non-tick message of phase 2 later than it), and phase 2 alone satisfies
// the complete C03 oracle.

import (
	"fmt"
	"os"
	"testing"
	"time"

	"pgregory.net/rapid"

	"github.com/milvus-io/milvus-proto/go-api/v2/commonpb"
	"github.com/milvus-io/milvus-proto/go-api/v2/msgpb"
	"github.com/milvus-io/milvus/pkg/util/tsoutil"

	"github.com/zilliztech/milvus-cdc/core/reader"

	"verifharness/stats"
)

type c03Checkpoint struct {
	msgID    []byte
	timeMs   int64  // target time of the last emitted pack (what the server stores as PositionInfo.Time)
	sourceTs uint64 // source end time of that pack (PositionInfo.SourceTs)
}

func genC03Script(t *rapid.T, c *collDef, st *streamDef, ci, from, n int, cur uint64, tag *int64) uint64 {
	for pi := from; pi < from+n; pi++ {
		p := &packDef{stream: st, idx: pi, id: []byte(fmt.Sprintf("c%dp%d", ci, pi)), begin: cur}
		nm := rapid.IntRange(0, 2).Draw(t, "msgs")
		mt := cur
		for mi := 0; mi < nm; mi++ {
			mt += uint64(rapid.IntRange(1, 3).Draw(t, "dts"))
			*tag++
			kind := rapid.SampledFrom([]string{"insert", "insert", "delete"}).Draw(t, "kind")
			p.msgs = append(p.msgs, &msgDef{kind: kind, ts: mt, tag: *tag, rows: 1, part: c.parts[0], pack: p})
		}
		cur = mt + uint64(rapid.IntRange(1, 4).Draw(t, "gap"))<<18
		p.end = cur
		st.script = append(st.script, p)
	}
	return cur
}

func propC03Resume(t *rapid.T) {
	sc := stats.New("C03")
	tt := rapid.SampledFrom([]int{1, 10000000}).Draw(t, "ttInterval")
	ns := rapid.IntRange(2, 3).Draw(t, "streams")
	offsets := make([]uint64, ns)
	for i := range offsets {
		offsets[i] = uint64(rapid.SampledFrom([]int{0, 50, 3000, 60000, 600000}).Draw(t, "clockSkewMs"))
	}
	processRestart := rapid.Bool().Draw(t, "processRestart")

	// ---- phase 1
	w1 := newWorld(worldOpts{ttIntervalMs: tt, bufSize: 4})
	tag := int64(0)
	curs := make([]uint64, ns)
	for i := 0; i < ns; i++ {
		c := w1.addCollection(i, "default", []int{0}, []int{0}, []*partDef{{name: "_default"}}, false)
		st := c.streams[0]
		st.posKd = "pchannel"
		st.offset = offsets[i]
		curs[i] = genC03Script(t, c, st, i, 0, rapid.IntRange(1, 4).Draw(t, "packsBefore"), ts(1700000000000+st.offset, 0), &tag)
		if err := w1.start(c); err != nil {
			t.Fatalf("VERIF-TROUBLE start: %v", err)
		}
		if !w1.waitRegistered(st, 20*time.Second) {
			t.Fatalf("VERIF-TROUBLE stream %s not registered", st.srcV)
		}
	}
	for step := 0; step < 100; step++ {
		var feedable []*streamDef
		for _, c := range w1.colls {
			if st := c.streams[0]; st.next < len(st.script) {
				feedable = append(feedable, st)
			}
		}
		if len(feedable) == 0 {
			break
		}
		w1.feedNext(feedable[rapid.IntRange(0, len(feedable)-1).Draw(t, "feed")])
	}
	if tt == 1 {
		time.Sleep(3 * time.Millisecond)
	}
	if busy, ok := w1.quiesce(30 * time.Second); !ok {
		t.Fatalf("VERIF-TROUBLE quiescence not reached: %s", busy)
	}
	out1, _ := w1.snapshot()
	channel := tgtPChan(0)
	checkC03(t, w1, channel, out1)
	// checkpoints and the last closing tick of the channel
	cps := map[int64]*c03Checkpoint{}
	var lastTick uint64
	for _, o := range out1 {
		if o.channel != channel {
			continue
		}
		mp := o.rm.MsgPack
		if n := len(mp.Msgs); n > 0 && mp.Msgs[n-1].Type() == commonpb.MsgType_TimeTick && mp.Msgs[n-1].EndTs() > lastTick {
			lastTick = mp.Msgs[n-1].EndTs()
		}
		ms, _ := tsoutil.ParseHybridTs(mp.EndTs)
		cps[o.rm.CollectionID] = &c03Checkpoint{msgID: append([]byte(nil), mp.EndPositions[0].MsgID...), timeMs: ms, sourceTs: o.rm.SourceEndTs}
	}
	w1.close()
	if processRestart {
		reader.ResetTSManagerForVerif()
	}
	if lastTick == 0 {
		sc.Class("nothing-emitted-before-the-resume")
		sc.Fingerprint("none")
		sc.Done()
		return
	}

	// ---- phase 2: a new manager resumes a subset of the streams from their checkpoints
	w2 := newWorld(worldOpts{ttIntervalMs: tt, bufSize: 4})
	defer w2.close()
	order := rapid.Permutation(seq(ns)).Draw(t, "resumeOrder")
	k := rapid.IntRange(1, ns).Draw(t, "resumed")
	// F-C03-resume-order (known finding): the clock of the downstream channel restarts from the checkpoint of the stream which is
	// resumed first; if another stream of the channel had got further before the stop, time goes back. While the finding is
	// listed the stream with the latest checkpoint time is resumed first (cases whose drawn order was changed are counted).
	excludedOrder := 0
	floorOf := func(i int) uint64 { // the channel time the resume of stream i establishes (what startInternal derives)
		cp := cps[int64(100+i)]
		if cp == nil {
			return 0
		}
		// the recorded time of the checkpoint + 1 ms, either as the seek time (source clock ahead) or as the channel start time
		// (source clock behind). The source time of the checkpoint is NOT a floor: a stream whose source clock is ahead lifts
		// the channel clock only once it delivers its next pack, and another stream may deliver first (a thorough run met this:
		// the closing tick 051.3 before the stop came from a tick-only pack, the best checkpoint gave 051.0, the other
		// stream delivered first at 051.1).
		return tsoutil.ComposeTS(cp.timeMs+1, 0)
	}
	if known("F-C03-resume-order") {
		best, bestF := -1, uint64(0)
		for i := 0; i < ns; i++ {
			if f := floorOf(i); f > bestF {
				best, bestF = i, f
			}
		}
		if bestF < lastTick {
			// no checkpoint reaches the time already emitted on the channel (the last pack of the furthest stream was a tick-only
			// pack of a lagging stream, whose recorded time is its source time): every resume order goes back - excluded, counted
			sc.Count("cases_excluded_by_F-C03-resume-order(no checkpoint reaches the emitted channel time)", 1)
			sc.Class("excluded-by-known-finding")
			sc.Fingerprint("excluded")
			sc.Done()
			return
		}
		if order[0] != best {
			excludedOrder = 1
			no := []int{best}
			for _, i := range order {
				if i != best {
					no = append(no, i)
				}
			}
			order = no
		}
	}
	lagFirst := false
	for j, i := range order[:k] {
		c := w2.addCollection(i, "default", []int{0}, []int{0}, []*partDef{{name: "_default"}}, false)
		st := c.streams[0]
		st.posKd = "pchannel"
		st.offset = offsets[i]
		genC03Script(t, c, st, i, 100, rapid.IntRange(1, 3).Draw(t, "packsAfter"), curs[i], &tag)
		var startTs map[string]uint64
		if cp := cps[c.id]; cp != nil {
			// what MetaCDC.startInternal derives from the persisted position
			positionTs := tsoutil.ComposeTS(cp.timeMs+1, 0)
			if cp.sourceTs > 0 && cp.sourceTs < positionTs {
				startTs = map[string]uint64{st.srcP: positionTs}
				positionTs = cp.sourceTs
				if j == 0 {
					lagFirst = true
				}
			}
			c.seek = []*msgpb.MsgPosition{{ChannelName: st.srcP, MsgID: cp.msgID, Timestamp: positionTs}}
		}
		if os.Getenv("VERIF_TRACE") != "" {
			fmt.Printf("TRACE resume coll=%d cp=%+v seek=%v startTs=%v lastTick=%d\n", c.id, cps[c.id], c.seek, startTs, lastTick)
		}
		if err := w2.mgr.StartReadCollection(w2.taskCtx(), (&modelDB{c.db}).info(), c.info, c.seek, startTs); err != nil {
			t.Fatalf("VERIF-TROUBLE resume start: %v", err)
		}
		c.started = true
		if !w2.waitRegistered(st, 20*time.Second) {
			t.Fatalf("VERIF-TROUBLE stream %s not registered after the resume", st.srcV)
		}
		// this stream delivers before the next one is resumed (the order of the resumes matters for the channel clock)
		for st.next < len(st.script) && rapid.Bool().Draw(t, "feedBeforeNextResume") {
			w2.feedNext(st)
		}
	}
	for step := 0; step < 100; step++ {
		var feedable []*streamDef
		for _, c := range w2.colls {
			if st := c.streams[0]; st.next < len(st.script) {
				feedable = append(feedable, st)
			}
		}
		if len(feedable) == 0 {
			break
		}
		w2.feedNext(feedable[rapid.IntRange(0, len(feedable)-1).Draw(t, "feed2")])
	}
	if tt == 1 {
		time.Sleep(3 * time.Millisecond)
	}
	if busy, ok := w2.quiesce(30 * time.Second); !ok {
		t.Fatalf("VERIF-TROUBLE quiescence not reached after the resume: %s", busy)
	}
	out2, _ := w2.snapshot()
	if os.Getenv("VERIF_TRACE") != "" {
		fmt.Printf("TRACE before:\n%s\nTRACE after:\n%s\n", w1.dump(out1), w2.dump(out2))
	}
	n2 := 0
	for _, o := range out2 {
		if o.channel != channel {
			continue
		}
		n2++
		mp := o.rm.MsgPack
		for i, m := range mp.Msgs {
			last := i == len(mp.Msgs)-1
			if last && m.Type() == commonpb.MsgType_TimeTick {
				if m.EndTs() < lastTick {
					t.Fatalf("time on %s goes back across the resume: closing tick %d of pack %s (collection %s) after the resume, last closing tick before it %d\nresumed %v of %d streams, skews %v, processRestart=%v",
						channel, m.EndTs(), mp.EndPositions[0].MsgID, o.rm.CollectionName, lastTick, order[:k], ns, offsets, processRestart)
				}
				continue
			}
			if m.Type() == commonpb.MsgType_TimeTick {
				continue // an opening tick: the statement constrains closing ticks and non-tick messages
			}
			if m.BeginTs() <= lastTick {
				t.Fatalf("message %v of pack %s emitted after the resume with time %d, not later than the closing tick %d emitted before the resume\nresumed %v of %d streams, skews %v, processRestart=%v",
					m.Type(), mp.EndPositions[0].MsgID, m.BeginTs(), lastTick, order[:k], ns, offsets, processRestart)
			}
		}
	}
	dp := checkC03(t, w2, channel, out2)
	sc.ClassIf(processRestart, "process-restart(fresh ts manager)")
	sc.ClassIf(!processRestart, "pause-resume(same process)")
	sc.ClassIf(k < ns, "only-some-streams-resumed")
	sc.ClassIf(lagFirst, "lagging-stream-resumed-first")
	sc.Count("cases_excluded_by_F-C03-resume-order(stream with the latest checkpoint resumed first)", excludedOrder)
	sc.Count("packs_after_resume", n2)
	sc.Count("data_packs_after_resume", dp)
	sc.NonTrivial(lagFirst && n2 > 0)
	sc.Fingerprint(fmt.Sprint(w1.describe(), w2.describe(), order[:k], processRestart))
	sc.Sample(map[string]any{"before": w1.describe(), "after": w2.describe(), "resume_order": order[:k], "skews_ms": offsets, "process_restart": processRestart})
	sc.Done()
}

func TestC03_Resume(t *testing.T) { rapid.Check(t, propC03Resume) }
