package hreader

import (
	"fmt"
	"testing"
	"time"
)

func TestSmoke(t *testing.T) {
	for _, pk := range []string{"vchannel", "pchannel", "nil"} {
		w := newWorld(worldOpts{ttIntervalMs: 1, bufSize: 4})
		c := w.addCollection(0, "default", []int{0}, []int{0}, []*partDef{{name: "_default"}}, false)
		st := c.streams[0]
		st.posKd = pk
		t0 := time.Now()
		if err := w.start(c); err != nil {
			t.Fatal(err)
		}
		fmt.Println(pk, "start", time.Since(t0))
		if !w.waitRegistered(st, 5*time.Second) {
			t.Fatal("not registered")
		}
		fmt.Println(pk, "registered", time.Since(t0))
		for i := 0; i < 3; i++ {
			b := ts(1700000000000+uint64(i)*10, 0)
			p := &packDef{stream: st, idx: i, begin: b, end: b + 100, id: []byte(fmt.Sprintf("s0:p%d", i))}
			p.msgs = []*msgDef{{kind: "insert", ts: b + 5, tag: int64(i + 1), rows: 2, part: c.parts[0], pack: p}}
			st.script = append(st.script, p)
		}
		for w.feedNext(st) {
		}
		b, ok := w.quiesce(5 * time.Second)
		fmt.Println(pk, "quiesce", ok, b, time.Since(t0))
		out, ev := w.snapshot()
		for _, o := range out {
			fmt.Println("  OUT", o.channel, o.rm.CollectionID, o.rm.CollectionName, "pch=", o.rm.PChannelName, o.rm.TaskID != "", len(o.rm.MsgPack.Msgs), string(o.rm.MsgPack.EndPositions[0].MsgID))
			for _, m := range o.rm.MsgPack.Msgs {
				fmt.Println("     ", m.Type(), m.BeginTs(), m.Position())
			}
		}
		fmt.Println("  events", len(ev))
		w.close()
	}
}
