package hreader

// The reader world: real replicateChannelManager (public constructor) between a fake msgdispatcher.Client
// (one unbuffered channel per source vchannel) and its public outputs (GetChannelChan / GetMsgChan / GetEventChan).

import (
	"context"
	"fmt"
	"sort"
	"sync"
	"sync/atomic"
	"time"

	"google.golang.org/protobuf/proto"

	"github.com/milvus-io/milvus-proto/go-api/v2/commonpb"
	"github.com/milvus-io/milvus-proto/go-api/v2/msgpb"
	"github.com/milvus-io/milvus-proto/go-api/v2/schemapb"
	"github.com/milvus-io/milvus/pkg/mq/msgstream"
	"github.com/milvus-io/milvus/pkg/util/tsoutil"

	"github.com/zilliztech/milvus-cdc/core/api"
	"github.com/zilliztech/milvus-cdc/core/config"
	"github.com/zilliztech/milvus-cdc/core/meta"
	"github.com/zilliztech/milvus-cdc/core/model"
	"github.com/zilliztech/milvus-cdc/core/pb"
	"github.com/zilliztech/milvus-cdc/core/reader"
	"github.com/zilliztech/milvus-cdc/core/util"

	"verifharness/fakes/dispatch"
	"verifharness/fakes/store"
	"verifharness/fakes/target"
	"verifharness/quiesce"
)

var caseSeq int64

type partDef struct {
	name       string
	sid, tid   int64
	registered bool // AddPartition done (non-default partitions only)
	lateID     bool // downstream id revealed only after the first lookup
}

type collDef struct {
	idx      int
	id, tid  int64
	name, db string
	streams  []*streamDef
	parts    []*partDef
	started  bool
	info     *pb.CollectionInfo
	tgtVChan []string
	seek     []*msgpb.MsgPosition
}

type msgDef struct {
	kind string // insert delete tick createCollection createPartition unsupported dropPartition dropCollection
	ts   uint64
	tag  int64
	rows int
	part *partDef
	src  proto.Message // deep copy of the request as fed
	pack *packDef
	// optional: the statement admits that this message is filtered (its object counts as dropped on both sides by then)
	optional bool
	// filled by the oracle
	emitted int
}

type sharedPositions struct{ start, end []*msgpb.MsgPosition }

type packDef struct {
	stream  *streamDef
	idx     int
	begin   uint64
	end     uint64
	msgs    []*msgDef
	id      []byte
	fedSeq  int // logical clock at feed (0 = not fed)
	emitSeq []int
	shared *sharedPositions // position objects shared with the twin pack of another stream (same upstream pack)
}

type streamDef struct {
	coll   *collDef
	shard  int
	srcP   string
	srcV   string
	tgtP   string // pchannel of the target vchannel the sorted pairing assigns
	tgtV   string
	script []*packDef
	next   int
	posKd  string // nil | pchannel | vchannel
	offset uint64 // clock offset in ms
}

type outPack struct {
	seq     int
	channel string
	rm      *api.ReplicateMsg
}

type world struct {
	reverseTargetLists bool // the fake downstream lists the shards of a collection in reverse order
	sameName bool // every collection is called "docs" (callers give each its own database)
	rid     string
	taskID  string
	mgr     api.ChannelManager
	disp    *dispatch.Client
	tgt     *target.API
	store   *store.JSONStore
	ctx     context.Context
	cancel  context.CancelFunc
	mu      sync.Mutex
	out     []*outPack
	events  []*api.ReplicateAPIEvent
	eventSeq []int
	outCnt  atomic.Int64
	chans   map[string]bool
	colls   []*collDef
	clock   int
	nTarget int
	hist    []string
	wg      sync.WaitGroup
	// onEvent lets a test react to API events (e.g. create the collection downstream).
	onEvent func(ev *api.ReplicateAPIEvent)
}

type fakeMetaOp struct {
	api.DefaultMetaOp
	w *world
}

func (f *fakeMetaOp) GetDatabaseInfoForCollection(ctx context.Context, id int64) model.DatabaseInfo {
	for _, c := range f.w.colls {
		if c.id == id {
			return model.DatabaseInfo{Name: c.db}
		}
	}
	return model.DatabaseInfo{Name: "default"}
}

func (f *fakeMetaOp) GetCollectionNameByID(ctx context.Context, id int64) string {
	for _, c := range f.w.colls {
		if c.id == id {
			return c.name
		}
	}
	return ""
}

type worldOpts struct {
	ttIntervalMs int
	bufSize      int
	srcNum       int
	tgtNum       int
	retryTimes   int
	// consumeGate, when set, delays the consumer of every output channel: like the server, which fetches a target
	// channel (GetMsgChan) some time after packs started to arrive, it only asks for the channel once the gate is closed.
	consumeGate chan struct{}
	// eventGate, when set, holds the consumer of the API event channel until the gate is closed (the server's event loop
	// handles one event at a time and each can take seconds of downstream retries, so the 10-slot channel does fill up).
	eventGate chan struct{}
	// prefixRelatedChannelNumbers: physical channels are numbered 0, 1, 10 (names in prefix relation: dml_1 / dml_10)
	prefixRelatedChannelNumbers bool
}

func newWorld(o worldOpts) *world {
	quiesce.SetBaseline() // goroutines left behind by earlier cases of this process are not part of this case
	chanNumber = func(i int) int { return i }
	if o.prefixRelatedChannelNumbers {
		chanNumber = func(i int) int { return []int{0, 1, 10, 11, 100}[i] }
	}
	w := &world{chans: map[string]bool{}}
	w.rid = fmt.Sprintf("case-%d-%d", time.Now().UnixNano(), atomic.AddInt64(&caseSeq, 1))
	w.taskID = "task-" + w.rid
	w.disp = dispatch.NewClient()
	w.tgt = target.New()
	w.store = store.New()
	rm, err := meta.NewReplicateMetaImpl(w.store)
	if err != nil {
		panic(err)
	}
	if o.retryTimes == 0 {
		o.retryTimes = 2
	}
	mgr, err := reader.NewReplicateChannelManager(w.disp, dispatch.NewFactory(), w.tgt, config.ReaderConfig{
		MessageBufferSize: o.bufSize, TTInterval: o.ttIntervalMs, Retry: config.RetrySettings{RetryTimes: o.retryTimes, InitBackOff: 1, MaxBackOff: 1},
		SourceChannelNum: o.srcNum, TargetChannelNum: o.tgtNum, ReplicateID: w.rid,
	}, &fakeMetaOp{w: w}, rm, nil, "milvus")
	if err != nil {
		panic(err)
	}
	w.mgr = mgr
	w.ctx, w.cancel = context.WithCancel(context.Background())
	mgr.SetCtx(w.ctx)
	// event collector
	w.wg.Add(1)
	go func() {
		defer w.wg.Done()
		if o.eventGate != nil {
			select {
			case <-w.ctx.Done():
				return
			case <-o.eventGate:
			}
		}
		for {
			select {
			case <-w.ctx.Done():
				return
			case ev := <-mgr.GetEventChan():
				w.mu.Lock()
				w.events = append(w.events, ev)
				w.clock++
				w.eventSeq = append(w.eventSeq, w.clock)
				h := w.onEvent
				w.mu.Unlock()
				w.outCnt.Add(1)
				if h != nil {
					h(ev)
				}
			}
		}
	}()
	// channel watcher: polls the ts-manager's channel list without blocking in library sleeps
	w.wg.Add(1)
	go func() {
		defer w.wg.Done()
		for {
			var cc <-chan string
			for cc == nil {
				cc = reader.GetTSManager().GetTargetChannelChan(w.rid)
				if cc == nil {
					select {
					case <-w.ctx.Done():
						return
					case <-time.After(200 * time.Microsecond):
					}
				}
			}
			select {
			case <-w.ctx.Done():
				return
			case name := <-cc:
				w.mu.Lock()
				w.chans[name] = true
				w.mu.Unlock()
				w.outCnt.Add(1)
				if o.consumeGate != nil {
					select {
					case <-w.ctx.Done():
						return
					case <-o.consumeGate:
					}
				}
				mc := mgr.GetMsgChan(name)
				w.wg.Add(1)
				go func() {
					defer w.wg.Done()
					for {
						select {
						case <-w.ctx.Done():
							return
						case rm := <-mc:
							w.mu.Lock()
							w.clock++
							w.out = append(w.out, &outPack{seq: w.clock, channel: name, rm: rm})
							w.mu.Unlock()
							w.outCnt.Add(1)
						}
					}
				}()
			}
		}
	}()
	return w
}

func (w *world) close() {
	w.cancel()
	w.wg.Wait()
}

func (w *world) quiesce(cap time.Duration) (string, bool) {
	return quiesce.Wait(func() int { return int(w.outCnt.Load()) }, cap)
}

func (w *world) tick() int {
	w.mu.Lock()
	defer w.mu.Unlock()
	w.clock++
	return w.clock
}

// chanNumber maps a channel index to the number in the channel name. By default the identity; a case may select numbers in
// prefix relation (0, 1, 10), as in a cluster with more than ten physical channels (set per case: cases run one at a time).
var chanNumber = func(i int) int { return i }

func srcPChan(i int) string { return fmt.Sprintf("src-dml_%d", chanNumber(i)) }
func tgtPChan(i int) string { return fmt.Sprintf("tgt-dml_%d", chanNumber(i)) }

// addCollection defines a collection placed on the given source / target physical channel indices and
// makes it visible downstream (unless absent is set).
func (w *world) addCollection(idx int, db string, srcIdx, tgtIdx []int, parts []*partDef, absentDownstream bool) *collDef {
	c := &collDef{idx: idx, id: int64(100 + idx), tid: int64(9000 + 7*idx), name: fmt.Sprintf("coll%d", idx), db: db, parts: parts}
	if w.sameName {
		c.name = "docs" // same-named collections of different databases
	}
	for _, p := range parts {
		if p.sid == 0 {
			p.sid = c.id*100 + int64(len(p.name))
			p.tid = c.tid*100 + int64(len(p.name)) + 50
		}
	}
	var srcV, srcP, tgtV, tgtP []string
	for j, k := range srcIdx {
		srcP = append(srcP, srcPChan(k))
		srcV = append(srcV, fmt.Sprintf("%s_%dv%d", srcPChan(k), c.id, j))
	}
	for j, k := range tgtIdx {
		tgtP = append(tgtP, tgtPChan(k))
		tgtV = append(tgtV, fmt.Sprintf("%s_%dv%d", tgtPChan(k), c.tid, j))
	}
	c.tgtVChan = tgtV
	// the statement only promises a one-to-one pairing; the harness records the sorted pairing the catalog order
	// suggests for statistics, the oracle itself only checks bijectivity.
	ss, ts := append([]string(nil), srcV...), append([]string(nil), tgtV...)
	sort.Strings(ss)
	sort.Strings(ts)
	for j := range srcV {
		st := &streamDef{coll: c, shard: j, srcP: srcP[j], srcV: srcV[j]}
		for i := range ss {
			if ss[i] == srcV[j] {
				st.tgtV = ts[i]
			}
		}
		c.streams = append(c.streams, st)
	}
	var sp []*commonpb.KeyDataPair
	for _, p := range srcP {
		sp = append(sp, &commonpb.KeyDataPair{Key: p, Data: []byte("start-" + p)})
	}
	c.info = &pb.CollectionInfo{ID: c.id, Schema: &schemapb.CollectionSchema{Name: c.name}, VirtualChannelNames: srcV, PhysicalChannelNames: srcP,
		StartPositions: sp, State: pb.CollectionState_CollectionCreated, ShardsNum: int32(len(srcV))}
	if !absentDownstream {
		w.putDownstream(c)
	}
	w.colls = append(w.colls, c)
	return c
}

func (w *world) putDownstream(c *collDef) {
	tc := &target.Coll{DB: c.db, Name: c.name, ID: c.tid, VChannels: append([]string(nil), c.tgtVChan...), Partitions: map[string]int64{}, Hidden: map[string]int{}}
	if w.reverseTargetLists {
		// the downstream may list the shards of a collection in any order
		for i, j := 0, len(tc.VChannels)-1; i < j; i, j = i+1, j-1 {
			tc.VChannels[i], tc.VChannels[j] = tc.VChannels[j], tc.VChannels[i]
		}
	}
	for _, v := range tc.VChannels {
		tc.PChannels = append(tc.PChannels, toP(v))
	}
	for _, p := range c.parts {
		tc.Partitions[p.name] = p.tid
		if p.lateID {
			tc.Hidden[p.name] = 1
		}
	}
	w.tgt.Put(tc)
}

func toP(v string) string {
	i := len(v) - 1
	for i >= 0 && v[i] != '_' {
		i--
	}
	return v[:i]
}

func (w *world) taskCtx() context.Context { return util.GetCtxWithTaskID(w.ctx, w.taskID) }

func (w *world) start(c *collDef) error {
	err := w.mgr.StartReadCollection(w.taskCtx(), &model.DatabaseInfo{Name: c.db}, c.info, c.seek, nil)
	c.started = err == nil
	return err
}

// waitRegistered waits (by quiescence, not by time) until the stream's vchannel has been registered at the fake
// dispatcher at least once; false means the code under test went quiescent without ever registering it.
func (w *world) waitRegistered(st *streamDef, cap time.Duration) bool {
	deadline := time.Now().Add(cap)
	for time.Now().Before(deadline) {
		if w.disp.RegisterCount(st.srcV) > 0 {
			return true
		}
		if _, ok := w.quiesce(50 * time.Millisecond); ok {
			return w.disp.RegisterCount(st.srcV) > 0
		}
	}
	return w.disp.RegisterCount(st.srcV) > 0
}

func ts(ms uint64, logical uint64) uint64 { return tsoutil.ComposeTS(int64(ms), int64(logical)) }

func (st *streamDef) position(id []byte, t uint64) *msgpb.MsgPosition {
	switch st.posKd {
	case "pchannel":
		return &msgpb.MsgPosition{ChannelName: st.srcP, MsgID: id, MsgGroup: "grp", Timestamp: t}
	case "vchannel":
		return &msgpb.MsgPosition{ChannelName: st.srcV, MsgID: id, MsgGroup: "grp", Timestamp: t}
	}
	return nil
}

// build turns a pack definition into the MsgPack handed to the consumer (fresh objects on every call).
func (p *packDef) build() *msgstream.MsgPack {
	st := p.stream
	mp := &msgstream.MsgPack{BeginTs: p.begin, EndTs: p.end,
		StartPositions: []*msgpb.MsgPosition{{ChannelName: st.srcP, MsgID: p.id, MsgGroup: "grp", Timestamp: p.begin}},
		EndPositions:   []*msgpb.MsgPosition{{ChannelName: st.srcP, MsgID: p.id, MsgGroup: "grp", Timestamp: p.end}}}
	if p.shared != nil {
		// the pinned msgdispatcher cuts one upstream pack into one pack per vchannel and hands the SAME position objects to all
		// of them (groupAndParseMsgs): twin packs share theirs
		mp.StartPositions, mp.EndPositions = p.shared.start, p.shared.end
	}
	for i, m := range p.msgs {
		mid := append(append([]byte(nil), p.id...), byte('#'), byte('0'+i))
		bm := msgstream.BaseMsg{BeginTimestamp: m.ts, EndTimestamp: m.ts, HashValues: []uint32{0}, MsgPosition: st.position(mid, m.ts)}
		c := st.coll
		switch m.kind {
		case "insert":
			ids := make([]int64, m.rows)
			tss := make([]uint64, m.rows)
			vals := make([]int64, m.rows)
			for r := range ids {
				ids[r] = m.tag*100 + int64(r)
				tss[r] = m.ts
				vals[r] = m.tag*7 + int64(r)
			}
			r := &msgpb.InsertRequest{Base: &commonpb.MsgBase{MsgType: commonpb.MsgType_Insert, Timestamp: m.ts, MsgID: m.tag}, ShardName: st.srcV, DbName: c.db, CollectionName: c.name,
				PartitionName: m.part.name, CollectionID: c.id, PartitionID: m.part.sid, Timestamps: tss, RowIDs: ids, NumRows: uint64(m.rows), Version: msgpb.InsertDataVersion_ColumnBased,
				FieldsData: []*schemapb.FieldData{{Type: schemapb.DataType_Int64, FieldName: "pk", FieldId: 100, Field: &schemapb.FieldData_Scalars{Scalars: &schemapb.ScalarField{Data: &schemapb.ScalarField_LongData{LongData: &schemapb.LongArray{Data: vals}}}}}}}
			m.src = proto.Clone(r)
			mp.Msgs = append(mp.Msgs, &msgstream.InsertMsg{BaseMsg: bm, InsertRequest: r})
		case "delete":
			tss := make([]uint64, m.rows)
			pks := make([]int64, m.rows)
			for r := range pks {
				pks[r] = m.tag*100 + int64(r)
				tss[r] = m.ts
			}
			pn := ""
			pid := int64(-1)
			if m.part != nil {
				pn, pid = m.part.name, m.part.sid
			}
			r := &msgpb.DeleteRequest{Base: &commonpb.MsgBase{MsgType: commonpb.MsgType_Delete, Timestamp: m.ts, MsgID: m.tag}, ShardName: st.srcV, DbName: c.db, CollectionName: c.name,
				PartitionName: pn, CollectionID: c.id, PartitionID: pid, Timestamps: tss, NumRows: int64(m.rows),
				PrimaryKeys: &schemapb.IDs{IdField: &schemapb.IDs_IntId{IntId: &schemapb.LongArray{Data: pks}}}}
			m.src = proto.Clone(r)
			mp.Msgs = append(mp.Msgs, &msgstream.DeleteMsg{BaseMsg: bm, DeleteRequest: r})
		case "tick":
			mp.Msgs = append(mp.Msgs, &msgstream.TimeTickMsg{BaseMsg: bm, TimeTickMsg: &msgpb.TimeTickMsg{Base: &commonpb.MsgBase{MsgType: commonpb.MsgType_TimeTick, Timestamp: m.ts}}})
		case "createCollection":
			mp.Msgs = append(mp.Msgs, &msgstream.CreateCollectionMsg{BaseMsg: bm, CreateCollectionRequest: &msgpb.CreateCollectionRequest{Base: &commonpb.MsgBase{MsgType: commonpb.MsgType_CreateCollection, Timestamp: m.ts},
				DbName: c.db, CollectionName: c.name, CollectionID: c.id}})
		case "createPartition":
			mp.Msgs = append(mp.Msgs, &msgstream.CreatePartitionMsg{BaseMsg: bm, CreatePartitionRequest: &msgpb.CreatePartitionRequest{Base: &commonpb.MsgBase{MsgType: commonpb.MsgType_CreatePartition, Timestamp: m.ts},
				DbName: c.db, CollectionName: c.name, CollectionID: c.id, PartitionName: "px", PartitionID: 77}})
		case "unsupported":
			mp.Msgs = append(mp.Msgs, &msgstream.DataNodeTtMsg{BaseMsg: bm, DataNodeTtMsg: &msgpb.DataNodeTtMsg{Base: &commonpb.MsgBase{MsgType: commonpb.MsgType_DataNodeTt, Timestamp: m.ts}, ChannelName: st.srcV, Timestamp: m.ts}})
		case "dropPartition":
			r := &msgpb.DropPartitionRequest{Base: &commonpb.MsgBase{MsgType: commonpb.MsgType_DropPartition, Timestamp: m.ts, MsgID: m.tag}, DbName: c.db, CollectionName: c.name,
				PartitionName: m.part.name, CollectionID: c.id, PartitionID: m.part.sid}
			m.src = proto.Clone(r)
			mp.Msgs = append(mp.Msgs, &msgstream.DropPartitionMsg{BaseMsg: bm, DropPartitionRequest: r})
		case "dropCollection":
			r := &msgpb.DropCollectionRequest{Base: &commonpb.MsgBase{MsgType: commonpb.MsgType_DropCollection, Timestamp: m.ts, MsgID: m.tag}, DbName: c.db, CollectionName: c.name, CollectionID: c.id}
			m.src = proto.Clone(r)
			mp.Msgs = append(mp.Msgs, &msgstream.DropCollectionMsg{BaseMsg: bm, DropCollectionRequest: r})
		}
	}
	return mp
}

// feedNext hands the stream's next pack over. Returns false when the stream is not registered (any more).
func (w *world) feedNext(st *streamDef) bool {
	if st.next >= len(st.script) {
		return false
	}
	p := st.script[st.next]
	seq := w.tick() // logical time of the hand-over attempt (before the consumer can react to it)
	ok := w.disp.Feed(w.ctx, st.srcV, p.build())
	if ok {
		st.next++
		p.fedSeq = seq
	}
	return ok
}

func supported(kind string) bool {
	return kind == "insert" || kind == "delete" || kind == "dropPartition" || kind == "dropCollection"
}

func (w *world) snapshot() ([]*outPack, []*api.ReplicateAPIEvent) {
	w.mu.Lock()
	defer w.mu.Unlock()
	return append([]*outPack(nil), w.out...), append([]*api.ReplicateAPIEvent(nil), w.events...)
}
