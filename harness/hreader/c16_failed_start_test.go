package hreader

// C16 through the manager, with a fault at the point where the handler of a newly assigned pair is created: "every source channel
// in use is assigned to exactly one downstream channel, an assignment never changes once made ... with equal counts the assignment
// is one-to-one". The first collection offered on a (source, downstream) pair cannot connect to the message queue (the connection
// check of the new handler fails once), its start fails. Then the same pair is offered again by another collection, and further
// pairs by further collections. Nothing was assigned by the failed start, so the second offer of the pair must be taken
// directly: the stream registers and its packs are emitted on the offered downstream channel; the other pairs are unaffected.

import (
	"fmt"
	"testing"
	"time"

	"pgregory.net/rapid"

	"github.com/milvus-io/milvus-proto/go-api/v2/commonpb"

	"verifharness/fakes/dispatch"
	"verifharness/stats"
)

func TestC16_FailedStart(t *testing.T) {
	rapid.Check(t, func(t *rapid.T) {
		sc := stats.New("C16")
		dispatch.ResetFailConnect()
		defer dispatch.ResetFailConnect()
		n := rapid.IntRange(2, 3).Draw(t, "pchannels")
		w := newWorld(worldOpts{ttIntervalMs: 1, bufSize: 4, srcNum: n, tgtNum: n})
		defer w.close()
		// a one-to-one placement of the source channels on the downstream channels, offered pair by pair
		perm := rapid.Permutation(seq(n)).Draw(t, "placement")
		failAt := rapid.IntRange(0, n-1).Draw(t, "pairWhoseFirstOfferFails")
		tag := int64(0)
		ci := 0
		type offer struct {
			c        *collDef
			src, tgt int
		}
		var offers []offer
		mk := func(src, tgt int) *collDef {
			c := w.addCollection(ci, "default", []int{src}, []int{tgt}, []*partDef{{name: "_default"}}, false)
			st := c.streams[0]
			st.posKd = "pchannel"
			cur := ts(1700000000000, 0)
			p := &packDef{stream: st, idx: 0, id: []byte(fmt.Sprintf("c%ds0p0", ci)), begin: cur}
			tag++
			p.msgs = append(p.msgs, &msgDef{kind: "insert", ts: cur + 1, tag: tag, rows: 1, part: c.parts[0], pack: p})
			p.end = cur + 2<<18
			st.script = append(st.script, p)
			ci++
			return c
		}
		failed := 0
		for src := 0; src < n; src++ {
			tgt := perm[src]
			if src == failAt {
				c := mk(src, tgt)
				dispatch.FailConnect(srcPChan(src), 1)
				if err := w.start(c); err == nil {
					// the connection check was not made for this offer: nothing to test in this case
					dispatch.ResetFailConnect()
					offers = append(offers, offer{c, src, tgt})
				} else {
					failed++
					w.hist = append(w.hist, fmt.Sprintf("start(%s on %d->%d) fails: cannot connect", c.name, src, tgt))
				}
			}
			if src != failAt || failed > 0 {
				c := mk(src, tgt)
				if err := w.start(c); err != nil {
					t.Fatalf("VERIF-TROUBLE StartReadCollection(%s): %v", c.name, err)
				}
				offers = append(offers, offer{c, src, tgt})
				w.hist = append(w.hist, fmt.Sprintf("start(%s on %d->%d)", c.name, src, tgt))
			}
		}
		for _, o := range offers {
			st := o.c.streams[0]
			if !w.waitRegistered(st, 20*time.Second) {
				t.Fatalf("source channel %s is in use (collection %s offered it with %s, which nobody holds) but it is never read: the stream is not registered although the service is at rest%s\nhistory: %v",
					srcPChan(o.src), o.c.name, tgtPChan(o.tgt), map[bool]string{true: " - the first offer of this pair had failed at the connection check", false: ""}[o.src == failAt && failed > 0], w.hist)
			}
			w.feedNext(st)
		}
		if busy, ok := w.quiesce(30 * time.Second); !ok {
			t.Fatalf("VERIF-TROUBLE quiescence not reached: %s", busy)
		}
		out, _ := w.snapshot()
		got := map[string]string{} // collection -> downstream channel of its data
		for _, o := range out {
			for _, m := range o.rm.MsgPack.Msgs {
				if m.Type() == commonpb.MsgType_Insert {
					if prev, ok := got[o.rm.CollectionName]; ok && prev != o.channel {
						t.Fatalf("collection %s is emitted on two downstream channels %s and %s\n%s", o.rm.CollectionName, prev, o.channel, w.dump(out))
					}
					got[o.rm.CollectionName] = o.channel
				}
			}
		}
		for _, o := range offers {
			ch, ok := got[o.c.name]
			if !ok {
				t.Fatalf("the row of collection %s (source channel %s) was never emitted although its stream is registered and the service is at rest\nhistory: %v\n%s", o.c.name, srcPChan(o.src), w.hist, w.dump(out))
			}
			if ch != tgtPChan(o.tgt) {
				t.Fatalf("source channel %s was offered with downstream channel %s while neither was assigned, but its data is emitted on %s (the assignment is not the one that was made / a failed start left an assignment behind)\nhistory: %v\n%s",
					srcPChan(o.src), tgtPChan(o.tgt), ch, w.hist, w.dump(out))
			}
		}
		sc.Class("manager:first-offer-of-a-pair-fails-at-the-connection-check")
		sc.ClassIf(failed > 0, "manager:failed-start-then-same-pair-offered-again")
		sc.NonTrivial(failed > 0)
		sc.Fingerprint(fmt.Sprint("failedstart", n, perm, failAt))
		sc.Sample(map[string]any{"failed_start": true, "channels": n, "placement": perm, "pair_whose_first_offer_fails": failAt, "history": w.hist})
		sc.Done()
	})
}
