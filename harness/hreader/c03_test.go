package hreader

// C03 — per downstream channel, emitted time is monotone and packs end with a tick.
//
// 2..4 source streams with skewed clocks are multiplexed onto ONE downstream channel. The verif yield hook parks every
// stream goroutine between "pack computed" and "pack enqueued"; a drawn schedule decides which parked pack is
// released (enqueued) next, so the window the statement quantifies over is enumerated, not left to the Go scheduler.

import (
	"fmt"
	"sync"
	"testing"
	"time"

	"pgregory.net/rapid"

	"github.com/milvus-io/milvus-proto/go-api/v2/commonpb"
	"github.com/milvus-io/milvus/pkg/mq/msgstream"

	"github.com/zilliztech/milvus-cdc/core/api"
	"github.com/zilliztech/milvus-cdc/core/reader"

	"verifharness/stats"
)

type parked struct {
	key  string
	gate chan struct{}
	seq  int
}

type scheduler struct {
	mu       sync.Mutex
	rid      string // only packs of this world are controlled
	control  bool
	parked   map[string]*parked // stream key -> parked pack
	arrived  chan string        // "computed:<key>" | "dropped:<key>" | "enqueued:<key>"
	computed int
}

func streamKey(collID int64, srcP string) string { return fmt.Sprintf("%d@%s", collID, srcP) }

func (s *scheduler) hook(point, targetPChannel string, src, out *api.ReplicateMsg) {
	if src == nil || src.TaskID != s.rid {
		return
	}
	key := streamKey(src.CollectionID, src.PChannelName)
	switch point {
	case "computed":
		s.mu.Lock()
		s.computed++
		if !s.control {
			s.mu.Unlock()
			return
		}
		p := &parked{key: key, gate: make(chan struct{}), seq: s.computed}
		s.parked[key] = p
		s.mu.Unlock()
		s.arrived <- "computed:" + key
		<-p.gate
	case "dropped":
		s.mu.Lock()
		c := s.control
		s.mu.Unlock()
		if c {
			s.arrived <- "dropped:" + key
		}
	case "enqueued":
		s.mu.Lock()
		c := s.control
		s.mu.Unlock()
		if c {
			s.arrived <- "enqueued:" + key
		}
	}
}

func (s *scheduler) await(want string, cap time.Duration) bool {
	deadline := time.After(cap)
	for {
		select {
		case got := <-s.arrived:
			if got == want || (len(want) > 9 && want[:9] == "computed:" && got == "dropped:"+want[9:]) {
				return true
			}
		case <-deadline:
			return false
		}
	}
}

func (s *scheduler) releaseAll() {
	s.mu.Lock()
	s.control = false
	ps := s.parked
	s.parked = map[string]*parked{}
	s.mu.Unlock()
	for _, p := range ps {
		close(p.gate)
	}
	// drain notifications nobody waits for
	for {
		select {
		case <-s.arrived:
		default:
			return
		}
	}
}

type c03Msg struct {
	stream *streamDef
	srcTs  uint64
	outTs  uint64
	kind   string
}

// checkC03 verifies the sequence of packs read from one downstream channel.
func checkC03(t failer, w *world, channel string, out []*outPack) (dataPacks int) {
	var lastTick uint64
	hasTick := false
	byTag := map[int64]*msgDef{}
	for _, c := range w.colls {
		for _, st := range c.streams {
			for _, p := range st.script {
				for _, m := range p.msgs {
					byTag[m.tag] = m
				}
			}
		}
	}
	perStream := map[*streamDef][]c03Msg{}
	for k, o := range out {
		if o.channel != channel {
			continue
		}
		mp := o.rm.MsgPack
		if len(mp.Msgs) == 0 {
			t.Fatalf("pack #%d on %s is empty", k, channel)
		}
		last := mp.Msgs[len(mp.Msgs)-1]
		if last.Type() != commonpb.MsgType_TimeTick {
			t.Fatalf("pack #%d on %s does not end with a time-tick but with %v\n%s", k, channel, last.Type(), w.dump(out))
		}
		closing := last.BeginTs()
		if tt, ok := last.(*msgstream.TimeTickMsg); ok && tt.Base.Timestamp != closing {
			t.Fatalf("pack #%d on %s: closing tick header %d != its message time %d", k, channel, tt.Base.Timestamp, closing)
		}
		if hasTick && closing < lastTick {
			t.Fatalf("closing tick decreases on %s: pack #%d closes at %d after a pack that closed at %d\n%s", channel, k, closing, lastTick, w.dump(out))
		}
		var data []msgstream.TsMsg
		for _, m := range mp.Msgs {
			if m.Type() != commonpb.MsgType_TimeTick {
				data = append(data, m)
			}
		}
		for _, m := range data {
			if hasTick && m.BeginTs() <= lastTick {
				t.Fatalf("message %v at %d on %s is not later than the closing tick %d of an earlier pack\n%s", m.Type(), m.BeginTs(), channel, lastTick, w.dump(out))
			}
			if m.BeginTs() > closing {
				t.Fatalf("message %v at %d on %s is later than its own pack's closing tick %d", m.Type(), m.BeginTs(), channel, closing)
			}
			if m.BeginTs() != m.EndTs() {
				t.Fatalf("message %v on %s has begin %d != end %d", m.Type(), channel, m.BeginTs(), m.EndTs())
			}
			if p := m.Position(); p == nil || p.Timestamp != m.BeginTs() {
				t.Fatalf("message %v at %d on %s carries position time %v", m.Type(), m.BeginTs(), channel, p)
			}
			var tag int64
			var rowTs []uint64
			switch x := m.(type) {
			case *msgstream.InsertMsg:
				tag, rowTs = x.Base.MsgID, x.Timestamps
			case *msgstream.DeleteMsg:
				tag, rowTs = x.Base.MsgID, x.Timestamps
			case *msgstream.DropPartitionMsg:
				tag = x.Base.MsgID
			case *msgstream.DropCollectionMsg:
				tag = x.Base.MsgID
			}
			for _, rt := range rowTs {
				if rt != m.BeginTs() {
					t.Fatalf("message %v at %d on %s has a row timestamp %d", m.Type(), m.BeginTs(), channel, rt)
				}
			}
			if fm := byTag[tag]; fm != nil {
				perStream[fm.pack.stream] = append(perStream[fm.pack.stream], c03Msg{stream: fm.pack.stream, srcTs: fm.ts, outTs: m.BeginTs(), kind: fm.kind})
			}
		}
		if len(data) > 0 {
			dataPacks++
			if mp.BeginTs != data[0].BeginTs() || mp.EndTs != data[len(data)-1].BeginTs() {
				t.Fatalf("data pack #%d on %s: begin/end %d/%d but first/last message at %d/%d", k, channel, mp.BeginTs, mp.EndTs, data[0].BeginTs(), data[len(data)-1].BeginTs())
			}
			for _, p := range mp.StartPositions {
				if p.Timestamp != mp.BeginTs {
					t.Fatalf("data pack #%d on %s: start position time %d != begin %d", k, channel, p.Timestamp, mp.BeginTs)
				}
			}
			for _, p := range mp.EndPositions {
				if p.Timestamp != mp.EndTs {
					t.Fatalf("data pack #%d on %s: end position time %d != end %d", k, channel, p.Timestamp, mp.EndTs)
				}
			}
		}
		lastTick, hasTick = closing, true
	}
	// relative order inside one source shard: earlier stays earlier, equal stays equal
	for st, ms := range perStream {
		for i := 0; i < len(ms); i++ {
			for j := i + 1; j < len(ms); j++ {
				a, b := ms[i], ms[j]
				switch {
				case a.srcTs < b.srcTs && !(a.outTs < b.outTs):
					t.Fatalf("stream %s: source times %d < %d but emitted %d, %d", st.srcV, a.srcTs, b.srcTs, a.outTs, b.outTs)
				case a.srcTs == b.srcTs && a.outTs != b.outTs:
					t.Fatalf("stream %s: equal source time %d emitted as %d and %d", st.srcV, a.srcTs, a.outTs, b.outTs)
				case a.srcTs > b.srcTs && !(a.outTs > b.outTs):
					t.Fatalf("stream %s: source times %d > %d but emitted %d, %d", st.srcV, a.srcTs, b.srcTs, a.outTs, b.outTs)
				}
			}
		}
	}
	return dataPacks
}

func propC03(t *rapid.T) {
	sc := stats.New("C03")
	w := newWorld(worldOpts{ttIntervalMs: rapid.SampledFrom([]int{1, 10000000}).Draw(t, "ttInterval"), bufSize: rapid.SampledFrom([]int{1, 4}).Draw(t, "bufSize")})
	defer w.close()
	sch := &scheduler{rid: w.taskID, parked: map[string]*parked{}, arrived: make(chan string, 64)}
	reader.SetVerifYield(sch.hook)
	defer reader.SetVerifYield(nil)
	defer sch.releaseAll()

	ns := rapid.IntRange(2, 4).Draw(t, "streams")
	tag := int64(0)
	var streams []*streamDef
	for i := 0; i < ns; i++ {
		c := w.addCollection(i, "default", []int{0}, []int{0}, []*partDef{{name: "_default"}}, false)
		st := c.streams[0]
		st.posKd = rapid.SampledFrom([]string{"nil", "pchannel"}).Draw(t, "positionKind")
		st.offset = uint64(rapid.SampledFrom([]int{0, 1, 50, 3000, 600000}).Draw(t, "clockSkewMs"))
		cur := ts(1700000000000+st.offset, 0)
		np := rapid.IntRange(1, 5).Draw(t, "packs")
		for pi := 0; pi < np; pi++ {
			p := &packDef{stream: st, idx: pi, id: []byte(fmt.Sprintf("c%dp%d", i, pi)), begin: cur}
			if pi == 0 && rapid.IntRange(0, 3).Draw(t, "beginZero") == 0 {
				p.begin = 0
			}
			nm := rapid.IntRange(0, 3).Draw(t, "msgs")
			mt := cur
			for mi := 0; mi < nm; mi++ {
				if mi == 0 || rapid.IntRange(0, 2).Draw(t, "sameTs") != 0 {
					mt += uint64(rapid.IntRange(1, 3).Draw(t, "dts"))
				}
				tag++
				kind := rapid.SampledFrom([]string{"insert", "insert", "delete"}).Draw(t, "kind")
				p.msgs = append(p.msgs, &msgDef{kind: kind, ts: mt, tag: tag, rows: rapid.IntRange(1, 2).Draw(t, "rows"), part: c.parts[0], pack: p})
			}
			cur = mt + uint64(rapid.IntRange(1, 4).Draw(t, "gap"))<<18
			p.end = cur
			st.script = append(st.script, p)
		}
		if err := w.start(c); err != nil {
			t.Fatalf("VERIF-TROUBLE start: %v", err)
		}
		if !w.waitRegistered(st, 20*time.Second) {
			t.Fatalf("VERIF-TROUBLE stream %s not registered", st.srcV)
		}
		streams = append(streams, st)
	}
	controlled := rapid.IntRange(0, 3).Draw(t, "controlledSchedule") != 0
	sch.mu.Lock()
	sch.control = controlled
	sch.mu.Unlock()
	reordered, contended := 0, 0
	var sched []string
	if controlled {
		// event-driven: a stream is idle, inflight (fed, neither computed nor dropped yet - possibly waiting for the
		// channel lock another parked pack holds), or parked at "computed".
		state := map[string]string{}
		byKey := map[string]*streamDef{}
		for _, st := range streams {
			byKey[streamKey(st.coll.id, st.srcP)] = st
			state[streamKey(st.coll.id, st.srcP)] = "idle"
		}
		lastReleasedSeq := 0
		apply := func(ev string) {
			for i := 0; i < len(ev); i++ {
				if ev[i] == ':' {
					point, k := ev[:i], ev[i+1:]
					switch point {
					case "computed":
						state[k] = "parked"
					case "dropped", "enqueued":
						state[k] = "idle"
					}
					return
				}
			}
		}
		waitEvent := func(d time.Duration) bool {
			select {
			case ev := <-sch.arrived:
				apply(ev)
				return true
			case <-time.After(d):
				return false
			}
		}
		for step := 0; step < 400; step++ {
			for waitEvent(0) {
			}
			var feedable, parkedKeys, inflight []string
			for _, st := range streams {
				k := streamKey(st.coll.id, st.srcP)
				switch state[k] {
				case "idle":
					if st.next < len(st.script) {
						feedable = append(feedable, k)
					}
				case "parked":
					parkedKeys = append(parkedKeys, k)
				case "inflight":
					inflight = append(inflight, k)
				}
			}
			if len(feedable) == 0 && len(parkedKeys) == 0 {
				if len(inflight) == 0 {
					break
				}
				if !waitEvent(20 * time.Second) {
					t.Fatalf("VERIF-TROUBLE packs of %v neither computed nor dropped", inflight)
				}
				continue
			}
			doFeed := len(parkedKeys) == 0 || (len(feedable) > 0 && rapid.Bool().Draw(t, "feedOrRelease"))
			if doFeed {
				k := feedable[rapid.IntRange(0, len(feedable)-1).Draw(t, "feed")]
				if !w.feedNext(byKey[k]) {
					t.Fatalf("VERIF-TROUBLE feed refused for %s", k)
				}
				state[k] = "inflight"
				if len(parkedKeys) > 0 {
					contended++ // another stream's pack sits in the computed-not-enqueued window right now
				}
				sched = append(sched, "feed:"+k)
				waitEvent(20 * time.Millisecond) // give it the chance to reach the window (or block behind a parked pack)
			} else {
				k := parkedKeys[rapid.IntRange(0, len(parkedKeys)-1).Draw(t, "release")]
				sch.mu.Lock()
				p := sch.parked[k]
				delete(sch.parked, k)
				sch.mu.Unlock()
				if p.seq < lastReleasedSeq {
					reordered++
				}
				if p.seq > lastReleasedSeq {
					lastReleasedSeq = p.seq
				}
				state[k] = "inflight"
				close(p.gate)
				sched = append(sched, "release:"+k)
				deadline := time.Now().Add(20 * time.Second)
				for state[k] == "inflight" {
					if !waitEvent(time.Until(deadline)) {
						t.Fatalf("VERIF-TROUBLE released pack of %s was not enqueued", k)
					}
				}
			}
		}
	} else {
		for step := 0; step < 200; step++ {
			var feedable []*streamDef
			for _, st := range streams {
				if st.next < len(st.script) {
					feedable = append(feedable, st)
				}
			}
			if len(feedable) == 0 {
				break
			}
			st := feedable[rapid.IntRange(0, len(feedable)-1).Draw(t, "feed")]
			w.feedNext(st)
			sched = append(sched, "feed:"+streamKey(st.coll.id, st.srcP))
		}
	}
	sch.releaseAll()
	if busy, ok := w.quiesce(30 * time.Second); !ok {
		t.Fatalf("VERIF-TROUBLE quiescence not reached: %s", busy)
	}
	out, _ := w.snapshot()
	dp := checkC03(t, w, tgtPChan(0), out)
	sc.ClassIf(controlled, "controlled-schedule")
	sc.ClassIf(!controlled, "free-running")
	sc.ClassIf(reordered > 0, "enqueue-order != compute-order")
	sc.Count("data_packs", dp)
	sc.Count("reordered_releases", reordered)
	sc.ClassIf(contended > 0, "pack-fed-while-another-is-in-the-window")
	sc.Count("contended_feeds", contended)
	sc.NonTrivial((reordered > 0 || contended > 0) && dp >= 2)
	sc.Fingerprint(fmt.Sprint(w.describe(), sched))
	sc.Sample(map[string]any{"streams": w.describe(), "schedule": sched})
	sc.Done()
}

func TestC03(t *testing.T) { rapid.Check(t, propC03) }
