package hreader

import (
	"fmt"
	"strings"
	"testing"
	"time"

	"verifharness/quiesce"
)

// TestC01_LateConsumer: the consumer of a target channel fetches the channel only after more packs than the channel buffers
// have been read from the source (the server does that: it learns the channel name through a one-second poll). Every pack must
// still be handed over. Regression for the deadlock between a producer waiting for room with the channel lock held and
// GetMsgChan taking the same lock (found by the server simulator; fix 493f014).
func TestC01_LateConsumer(t *testing.T) {
	for _, buf := range []int{1, 2, 4} {
		gate := make(chan struct{})
		w := newWorld(worldOpts{ttIntervalMs: 1, bufSize: buf, consumeGate: gate})
		c := w.addCollection(0, "default", []int{0}, []int{0}, []*partDef{{name: "_default"}}, false)
		st := c.streams[0]
		st.posKd = "nil"
		if err := w.start(c); err != nil {
			t.Fatal(err)
		}
		if !w.waitRegistered(st, 5*time.Second) {
			t.Fatalf("VERIF-TROUBLE: stream not registered")
		}
		n := buf + 4
		for i := 0; i < n; i++ {
			b := ts(1700000000000+uint64(i)*10, 0)
			p := &packDef{stream: st, idx: i, begin: b, end: b + 100, id: []byte(fmt.Sprintf("s0:p%d", i))}
			p.msgs = []*msgDef{{kind: "insert", ts: b + 5, tag: int64(i + 1), rows: 1, part: c.parts[0], pack: p}}
			st.script = append(st.script, p)
		}
		fed := make(chan struct{})
		go func() {
			defer close(fed)
			for w.feedNext(st) {
			}
		}()
		// the producer side fills the buffer and blocks; only now the consumer asks for the channel
		w.quiesce(2 * time.Second)
		close(gate)
		select {
		case <-fed:
		case <-time.After(20 * time.Second):
			dump := quiesce.Dump()
			w.cancel()
			if !strings.Contains(dump, "GetTargetMsgChan") {
				t.Fatalf("VERIF-TROUBLE: feeding did not finish within the cap, but no consumer is blocked fetching the channel:\n%s", dump)
			}
			t.Fatalf("VERIF-VIOLATION C01: with a target channel buffer of %d packs and a consumer that fetches the channel after %d packs were read, the stream never drains (producer holds the channel lock the consumer needs)", buf, n)
		}
		if busy, ok := w.quiesce(10 * time.Second); !ok {
			t.Fatalf("VERIF-TROUBLE: not quiescent: %s", busy)
		}
		out, _ := w.snapshot()
		rows := 0
		for _, o := range out {
			for _, m := range o.rm.MsgPack.Msgs {
				if m.Type().String() == "Insert" {
					rows++
				}
			}
		}
		w.close()
		if rows != n {
			t.Fatalf("VERIF-VIOLATION C01: %d of %d insert messages handed over with a late consumer (buffer %d)", rows, n, buf)
		}
	}
}
