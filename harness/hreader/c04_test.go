package hreader

// C04 — a drop is replayed downstream once, only after every shard reached it.

import (
	"fmt"
	"os"
	"sync"
	"sync/atomic"
	"testing"
	"time"

	"pgregory.net/rapid"

	"github.com/milvus-io/milvus-proto/go-api/v2/commonpb"
	"github.com/milvus-io/milvus-proto/go-api/v2/msgpb"
	"github.com/milvus-io/milvus/pkg/mq/msgstream"

	"github.com/zilliztech/milvus-cdc/core/api"
	"github.com/zilliztech/milvus-cdc/core/pb"

	"verifharness/stats"
)

func propC04(t *rapid.T) {
	sc := stats.New("C04")
	w := newWorld(worldOpts{ttIntervalMs: rapid.SampledFrom([]int{1, 10000000}).Draw(t, "ttInterval"), bufSize: 4})
	defer w.close()
	scenario := rapid.SampledFrom([]string{"drop-collection", "drop-collection", "drop-partition", "drop-partition", "dropped-while-down", "partition-dropped-while-down"}).Draw(t, "scenario")
	ns := rapid.IntRange(1, 3).Draw(t, "shards")
	idx := drawSubset(t, 3, ns, "placement")
	db := rapid.SampledFrom([]string{"default", "db1"}).Draw(t, "db")
	parts := []*partDef{{name: "_default"}, {name: "p1"}}
	c := w.addCollection(0, db, idx, idx, parts, false)
	// a second collection sharing the same physical channels produces traffic in between
	other := w.addCollection(1, "default", idx[:1], idx[:1], []*partDef{{name: "_default"}}, false)
	tag := int64(0)
	mk := func(st *streamDef, pi int, cur *uint64, kinds []string, part *partDef) *packDef {
		p := &packDef{stream: st, idx: pi, id: []byte(fmt.Sprintf("c%ds%dp%d", st.coll.idx, st.shard, pi)), begin: *cur}
		mt := *cur
		for _, k := range kinds {
			mt += 2
			tag++
			m := &msgDef{kind: k, ts: mt, tag: tag, rows: 1, part: part, pack: p}
			if k == "insert" || k == "delete" {
				m.part = st.coll.parts[0]
				if part != nil && rapid.Bool().Draw(t, "intoNamedPartition") {
					m.part = part
				}
			}
			p.msgs = append(p.msgs, m)
		}
		*cur = mt + 1<<18
		p.end = *cur
		return p
	}
	dropKind := "dropCollection"
	if scenario == "drop-partition" {
		dropKind = "dropPartition"
	}
	live := scenario == "drop-collection" || scenario == "drop-partition"
	dropPackOf := map[*streamDef]*packDef{}
	dropTs := ts(1700000009000, 0)
	for _, st := range c.streams {
		st.posKd = rapid.SampledFrom([]string{"nil", "pchannel"}).Draw(t, "positionKind")
		cur := ts(1700000000000, 0)
		if !live {
			continue
		}
		nb := rapid.IntRange(0, 2).Draw(t, "packsBeforeDrop")
		pi := 0
		for ; pi < nb; pi++ {
			st.script = append(st.script, mk(st, pi, &cur, []string{rapid.SampledFrom([]string{"insert", "delete"}).Draw(t, "kind")}, parts[1]))
		}
		// the drop message is one upstream DDL: same timestamp on every shard
		cur = dropTs
		kinds := []string{dropKind}
		if rapid.Bool().Draw(t, "dataInDropPack") {
			kinds = []string{"insert", dropKind}
			cur = dropTs - 2
		}
		dp := mk(st, pi, &cur, kinds, parts[1])
		for _, m := range dp.msgs {
			if m.kind == dropKind {
				m.part = parts[1]
			} else {
				m.part = parts[0]
			}
		}
		dropPackOf[st] = dp
		st.script = append(st.script, dp)
		pi++
		if scenario == "drop-partition" {
			na := rapid.IntRange(0, 2).Draw(t, "packsAfterDrop")
			for k := 0; k < na; k++ {
				st.script = append(st.script, mk(st, pi, &cur, []string{"insert"}, nil))
				pi++
			}
		}
	}
	ost := other.streams[0]
	ost.posKd = "pchannel"
	ocur := ts(1700000000500, 0)
	for pi := 0; pi < rapid.IntRange(0, 3).Draw(t, "otherPacks"); pi++ {
		ost.script = append(ost.script, mk(ost, pi, &ocur, []string{"insert"}, nil))
	}

	stopAt := -1
	if live && rapid.IntRange(0, 3).Draw(t, "stop") == 0 {
		stopAt = rapid.IntRange(0, 6).Draw(t, "stopAfterFeeds")
	}
	earlyAddPartition := false
	switch scenario {
	case "dropped-while-down":
		c.info.State = rapid.SampledFrom([]pb.CollectionState{pb.CollectionState_CollectionDropped, pb.CollectionState_CollectionDropping}).Draw(t, "state")
		for _, st := range c.streams {
			c.seek = append(c.seek, &msgpb.MsgPosition{ChannelName: st.srcP, MsgID: []byte("ckpt-" + st.srcP), Timestamp: ts(1700000005000, 0)})
		}
	case "partition-dropped-while-down":
		for _, st := range c.streams {
			c.seek = append(c.seek, &msgpb.MsgPosition{ChannelName: st.srcP, MsgID: []byte("ckpt-" + st.srcP), Timestamp: ts(1700000005000, 0)})
		}
	}
	if err := w.start(other); err != nil {
		t.Fatalf("VERIF-TROUBLE start other: %v", err)
	}
	if !w.waitRegistered(ost, 20*time.Second) {
		t.Fatalf("VERIF-TROUBLE other stream not registered")
	}
	if err := w.start(c); err != nil {
		t.Fatalf("VERIF-TROUBLE start: %v", err)
	}
	pinfo := partInfo(c, parts[1])
	if scenario == "partition-dropped-while-down" {
		pinfo.State = rapid.SampledFrom([]pb.PartitionState{pb.PartitionState_PartitionDropped, pb.PartitionState_PartitionDropping}).Draw(t, "pstate")
	}
	if scenario != "dropped-while-down" {
		earlyAddPartition = rapid.Bool().Draw(t, "addPartitionBeforeStreamsRegistered")
		if !earlyAddPartition {
			for _, st := range c.streams {
				if !w.waitRegistered(st, 20*time.Second) {
					t.Fatalf("VERIF-TROUBLE stream %s not registered", st.srcV)
				}
			}
			if b, ok := w.quiesce(20 * time.Second); !ok {
				t.Fatalf("VERIF-TROUBLE quiesce before AddPartition: %s", b)
			}
		}
		if err := w.mgr.AddPartition(w.taskCtx(), (&modelDB{c.db}).info(), c.info, pinfo); err != nil {
			t.Fatalf("VERIF-TROUBLE AddPartition: %v", err)
		}
	}
	for _, st := range c.streams {
		if !w.waitRegistered(st, 20*time.Second) {
			t.Fatalf("VERIF-TROUBLE stream %s not registered", st.srcV)
		}
	}
	// feed in a drawn interleaving
	feeds := 0
	stopped := false
	stopSeq := 0
	all := append(append([]*streamDef(nil), c.streams...), ost)
	for step := 0; step < 100; step++ {
		if stopAt >= 0 && feeds >= stopAt && !stopped {
			stopSeq = w.tick()
			if err := w.mgr.StopReadCollection(w.taskCtx(), c.info); err != nil {
				t.Fatalf("VERIF-TROUBLE StopReadCollection: %v", err)
			}
			stopped = true
			w.hist = append(w.hist, "stop("+c.name+")")
		}
		var feedable []*streamDef
		for _, st := range all {
			if st.next < len(st.script) && !(stopped && st.coll == c) {
				feedable = append(feedable, st)
			}
		}
		if len(feedable) == 0 {
			break
		}
		st := feedable[rapid.IntRange(0, len(feedable)-1).Draw(t, "feed")]
		if w.feedNext(st) {
			feeds++
			w.hist = append(w.hist, fmt.Sprintf("feed(%s#%d)", st.srcV, st.next-1))
		} else {
			st.script = st.script[:st.next]
		}
	}
	if busy, ok := w.quiesce(40 * time.Second); !ok {
		t.Fatalf("VERIF-TROUBLE quiescence not reached: %s", busy)
	}
	out, events := w.snapshot()
	w.mu.Lock()
	eseq := append([]int(nil), w.eventSeq...)
	w.mu.Unlock()

	// ---- oracle
	var dropEvents []int
	errEvents := 0
	excludedEarly := 0
	wantType := api.ReplicateDropCollection
	if scenario == "drop-partition" || scenario == "partition-dropped-while-down" {
		wantType = api.ReplicateDropPartition
	}
	for i, ev := range events {
		switch ev.EventType {
		case api.ReplicateDropCollection, api.ReplicateDropPartition:
			if ev.EventType != wantType || ev.CollectionInfo.GetID() != c.id {
				t.Fatalf("unexpected drop request %v for collection %d\n%s", ev.EventType, ev.CollectionInfo.GetID(), w.dump(out))
			}
			dropEvents = append(dropEvents, i)
			if ev.ReplicateParam.Database != c.db || ev.CollectionInfo.Schema.GetName() != c.name {
				t.Fatalf("drop request names %q.%q, the dropped object is %q.%q", ev.ReplicateParam.Database, ev.CollectionInfo.Schema.GetName(), c.db, c.name)
			}
			if wantType == api.ReplicateDropPartition && ev.PartitionInfo.GetPartitionName() != "p1" {
				t.Fatalf("drop-partition request names partition %q, dropped partition is p1", ev.PartitionInfo.GetPartitionName())
			}
			if ev.TaskID != w.taskID || ev.ReplicateInfo == nil || !ev.ReplicateInfo.IsReplicate {
				t.Fatalf("drop request not attributed / not marked as replication: task %q info %v", ev.TaskID, ev.ReplicateInfo)
			}
		case api.ReplicateError:
			// a pack that was in flight when the collection was stopped may fail its lookup: that is not a drop request
			errEvents++
			if !stopped && !(scenario == "drop-partition" && earlyAddPartition && known("F-C04-partition-barrier-undersized")) {
				t.Fatalf("error event raised without any stop: %v\n%s", ev.Error, w.dump(out))
			}
		}
	}
	if len(dropEvents) > 1 {
		t.Fatalf("%d drop requests issued for one dropped object\n%s", len(dropEvents), w.dump(out))
	}
	allFed := true
	lastFed := 0
	for _, st := range c.streams {
		dp := dropPackOf[st]
		if dp == nil || dp.fedSeq == 0 {
			allFed = false
			continue
		}
		if dp.fedSeq > lastFed {
			lastFed = dp.fedSeq
		}
	}
	switch {
	case live && scenario == "drop-partition" && earlyAddPartition && known("F-C04-partition-barrier-undersized"):
		// known finding: AddPartition sizes the barrier by the handlers that hold the collection at that moment; called
		// before every shard's stream is registered it may undercount. The timing checks are not applied to this class
		// (with or without a stop: an undersized barrier fires early in both).
		excludedEarly = 1
	case live && stopped:
		// a stop never produces a drop; a drop request is only legitimate if every shard had delivered the drop before the stop
		if len(dropEvents) == 1 && (!allFed || lastFed > stopSeq) {
			t.Fatalf("drop request issued although the collection was stopped before every shard delivered the drop message\n%s", w.dump(out))
		}
	case live:
		if allFed && len(dropEvents) != 1 {
			t.Fatalf("every shard delivered the %s message but %d drop requests were issued\n%s", dropKind, len(dropEvents), w.dump(out))
		}
		if !allFed && len(dropEvents) != 0 {
			t.Fatalf("drop request issued before every shard delivered the %s message\n%s", dropKind, w.dump(out))
		}
		if len(dropEvents) == 1 && eseq[dropEvents[0]] < lastFed {
			t.Fatalf("drop request (logical time %d) issued before the last shard's %s message was read (logical time %d)\n%s", eseq[dropEvents[0]], dropKind, lastFed, w.dump(out))
		}
	default:
		if len(dropEvents) != 1 {
			t.Fatalf("object dropped upstream while CDC was down (seek time != 0): expected exactly one drop request after restart, got %d\n%s", len(dropEvents), w.dump(out))
		}
	}
	// (whether the per-shard drop messages themselves are emitted is C01's business: its filter rule admits their
	// absence once the object counts as dropped on both sides)
	_ = msgstream.MsgPack{}
	_ = commonpb.MsgType_DropCollection
	sc.Class("scenario:" + scenario)
	sc.ClassIf(stopped, "stopped")
	sc.ClassIf(errEvents > 0, "in-flight-pack-failed-after-stop")
	sc.ClassIf(earlyAddPartition, "AddPartition-before-streams-registered")
	sc.ClassIf(len(dropEvents) == 1, "drop-request-issued")
	sc.Count("cases_excluded_by_F-C04-partition-barrier-undersized(timing checks only)", excludedEarly)
	sc.Class(fmt.Sprintf("shards:%d", ns))
	sc.NonTrivial(ns >= 2 && (len(dropEvents) == 1 || stopped))
	sc.Fingerprint(fmt.Sprint(scenario, db, w.describe(), w.hist, earlyAddPartition))
	sc.Sample(map[string]any{"scenario": scenario, "db": db, "shards": ns, "streams": w.describe(), "actions": w.hist, "drop_requests": len(dropEvents)})
	sc.Done()
}

func TestC04(t *testing.T) { rapid.Check(t, propC04) }

// TestC04_PendingEvent: "Stopping or pausing a task never produces a drop request" when the drop request is already waiting to
// be handed over. The consumer of the API events is held (the server handles one event at a time, each may take seconds), ten
// create-partition events fill the event channel, then every shard delivers the drop message: the drop request cannot be handed
// over yet. The collection is stopped, the consumer is released: no drop request may come out. (After a resume the streams are
// read again from the checkpoint and the drop is requested then.)
func TestC04_PendingEvent(t *testing.T) {
	rapid.Check(t, func(t *rapid.T) {
		sc := stats.New("C04")
		gate := make(chan struct{})
		w := newWorld(worldOpts{ttIntervalMs: 10000000, bufSize: 4, eventGate: gate})
		defer w.close()
		kind := rapid.SampledFrom([]string{"dropCollection", "dropPartition"}).Draw(t, "kind")
		ns := rapid.IntRange(1, 3).Draw(t, "shards")
		idx := drawSubset(t, 3, ns, "placement")
		parts := []*partDef{{name: "_default"}, {name: "p1"}}
		c := w.addCollection(0, "default", idx, idx, parts, false)
		if err := w.start(c); err != nil {
			t.Fatalf("VERIF-TROUBLE start: %v", err)
		}
		for _, st := range c.streams {
			st.posKd = "pchannel"
			if !w.waitRegistered(st, 20*time.Second) {
				t.Fatalf("VERIF-TROUBLE stream %s not registered", st.srcV)
			}
		}
		if b, ok := w.quiesce(20 * time.Second); !ok {
			t.Fatalf("VERIF-TROUBLE quiesce: %s", b)
		}
		if err := w.mgr.AddPartition(w.taskCtx(), (&modelDB{c.db}).info(), c.info, partInfo(c, parts[1])); err != nil {
			t.Fatalf("VERIF-TROUBLE AddPartition: %v", err)
		}
		// ten partitions the downstream does not have yet: one create-partition event each, nobody takes them
		for i := 0; i < 10; i++ {
			f := &partDef{name: fmt.Sprintf("filler%d", i), sid: c.id*100 + 60 + int64(i), tid: c.tid*100 + 60 + int64(i)}
			if err := w.mgr.AddPartition(w.taskCtx(), (&modelDB{c.db}).info(), c.info, partInfo(c, f)); err != nil {
				t.Fatalf("VERIF-TROUBLE AddPartition(filler): %v", err)
			}
		}
		cur := ts(1700000009000, 0)
		tag := int64(0)
		for _, st := range c.streams {
			tag++
			p := &packDef{stream: st, idx: 0, id: []byte(fmt.Sprintf("c0s%dp0", st.shard)), begin: cur, end: cur + 1<<18}
			p.msgs = []*msgDef{{kind: kind, ts: cur + 1, tag: tag, part: parts[1], pack: p}}
			st.script = []*packDef{p}
			if !w.feedNext(st) {
				t.Fatalf("VERIF-TROUBLE feed")
			}
		}
		if b, ok := w.quiesce(30 * time.Second); !ok {
			t.Fatalf("VERIF-TROUBLE quiesce with the drop request pending: %s", b)
		}
		if err := w.mgr.StopReadCollection(w.taskCtx(), c.info); err != nil {
			t.Fatalf("VERIF-TROUBLE StopReadCollection: %v", err)
		}
		if b, ok := w.quiesce(30 * time.Second); !ok {
			t.Fatalf("VERIF-TROUBLE quiesce after the stop: %s", b)
		}
		close(gate)
		if b, ok := w.quiesce(30 * time.Second); !ok {
			t.Fatalf("VERIF-TROUBLE quiesce after releasing the consumer: %s", b)
		}
		_, events := w.snapshot()
		creates := 0
		for _, ev := range events {
			switch ev.EventType {
			case api.ReplicateCreatePartition:
				creates++
			case api.ReplicateDropCollection, api.ReplicateDropPartition:
				t.Fatalf("the collection was stopped while its %s request could not be handed over yet (event channel full); the request came out after the stop: a stop produced a drop request (%d shards)", kind, ns)
			}
		}
		if creates != 10 {
			t.Fatalf("VERIF-TROUBLE: %d create-partition events, expected the 10 fillers", creates)
		}
		sc.Class("drop-request-pending-at-stop:" + kind)
		sc.Class(fmt.Sprintf("shards:%d", ns))
		sc.NonTrivial(true)
		sc.Fingerprint(fmt.Sprint("pending", kind, idx))
		sc.Sample(map[string]any{"scenario": "stop while the drop request waits for room in the event channel", "kind": kind, "shards": ns})
		sc.Done()
	})
}

// TestC04_Lifecycle: the drop must be requested exactly once also when the collection reached its streams through a more
// eventful life: a repeated notification that overlaps the first one (catalog listing + watch event) and / or a stop followed by
// a new start on the SAME channel manager (pause / resume of a task while another task keeps the target alive), with the partition
// registered again. Afterwards every shard delivers the drop.
func TestC04_Lifecycle(t *testing.T) {
	rapid.Check(t, func(t *rapid.T) {
		sc := stats.New("C04")
		w := newWorld(worldOpts{ttIntervalMs: 10000000, bufSize: 4})
		defer w.close()
		kind := rapid.SampledFrom([]string{"dropCollection", "dropPartition"}).Draw(t, "kind")
		repeatStart := rapid.Bool().Draw(t, "repeatedNotification")
		stopResume := rapid.Bool().Draw(t, "stopAndStartAgain")
		ns := rapid.IntRange(1, 3).Draw(t, "shards")
		idx := drawSubset(t, 3, ns, "placement")
		parts := []*partDef{{name: "_default"}, {name: "p1"}}
		c := w.addCollection(0, "default", idx, idx, parts, false)
		// another collection lives on the same channels (all of them, or only the first): its handlers exist before c is started
		// and survive a stop of c
		oidx := idx
		if rapid.Bool().Draw(t, "otherOnFirstChannelOnly") {
			oidx = idx[:1]
		}
		other := w.addCollection(1, "default", oidx, oidx, []*partDef{{name: "_default"}}, false)
		if err := w.start(other); err != nil {
			t.Fatalf("VERIF-TROUBLE start other: %v", err)
		}
		for _, ost := range other.streams {
			ost.posKd = "pchannel"
			if !w.waitRegistered(ost, 20*time.Second) {
				t.Fatalf("VERIF-TROUBLE other stream not registered")
			}
		}
		startC := func(again bool) {
			var concErr chan error
			if repeatStart && !again {
				concErr = make(chan error, 1)
				var arrived atomic.Int32
				both := make(chan struct{})
				// the repeated notification is started first and held inside its downstream lookup (after the early
				// already-replicating check) until the other notification has got there too
				w.tgt.SetBeforeCollectionInfo(func(db, name string) {
					if name != c.name {
						return
					}
					switch arrived.Add(1) {
					case 1:
						select {
						case <-both:
						case <-time.After(2 * time.Second):
						}
					case 2:
						close(both)
					}
				})
				// should both notifications get as far as subscribing the shards, let them win different shards: on every shard but
				// the first the subscription that arrives first waits (150 ms at most) for a second one and lets it pass
				var hmu sync.Mutex
				waiting := map[string]chan struct{}{}
				first := c.streams[0].srcV
				w.disp.HoldRegister = func(v string) {
					mine := false
					for _, st := range c.streams {
						mine = mine || st.srcV == v
					}
					if os.Getenv("VERIF_TRACE") != "" {
						fmt.Printf("TRACE register attempt %s mine=%v\n", v, mine)
					}
					if !mine || v == first {
						return
					}
					hmu.Lock()
					if ch, ok := waiting[v]; ok {
						delete(waiting, v)
						hmu.Unlock()
						close(ch) // the second arrival passes, the first may go on afterwards
						if os.Getenv("VERIF_TRACE") != "" {
							fmt.Printf("TRACE second arrival passes on %s\n", v)
						}
						return
					}
					ch := make(chan struct{})
					waiting[v] = ch
					hmu.Unlock()
					select {
					case <-ch:
						time.Sleep(5 * time.Millisecond)
					case <-time.After(150 * time.Millisecond):
						if os.Getenv("VERIF_TRACE") != "" {
							fmt.Printf("TRACE first arrival timed out on %s\n", v)
						}
						hmu.Lock()
						delete(waiting, v)
						hmu.Unlock()
					}
				}
				go func() {
					concErr <- w.mgr.StartReadCollection(w.taskCtx(), (&modelDB{c.db}).info(), c.info, c.seek, nil)
				}()
				for dl := time.Now().Add(2 * time.Second); arrived.Load() == 0 && time.Now().Before(dl); {
					time.Sleep(200 * time.Microsecond)
				}
			}
			if err := w.start(c); err != nil {
				t.Fatalf("StartReadCollection failed (repeated=%v, again=%v): %v", concErr != nil, again, err)
			}
			if concErr != nil {
				err := <-concErr
				if os.Getenv("VERIF_TRACE") != "" {
					fmt.Printf("TRACE repeated notification returned %v\n", err)
				}
				if err != nil {
					t.Fatalf("a repeated notification of the collection had an effect: StartReadCollection failed: %v", err)
				}
				w.tgt.SetBeforeCollectionInfo(nil)
			}
			for _, st := range c.streams {
				deadline := time.Now().Add(20 * time.Second)
				for !w.disp.Registered(st.srcV) && time.Now().Before(deadline) {
					w.quiesce(50 * time.Millisecond)
				}
				if !w.disp.Registered(st.srcV) {
					t.Fatalf("VERIF-TROUBLE stream %s not registered (again=%v)", st.srcV, again)
				}
			}
			if b, ok := w.quiesce(20 * time.Second); !ok {
				t.Fatalf("VERIF-TROUBLE quiesce: %s", b)
			}
			if err := w.mgr.AddPartition(w.taskCtx(), (&modelDB{c.db}).info(), c.info, partInfo(c, parts[1])); err != nil {
				t.Fatalf("VERIF-TROUBLE AddPartition: %v", err)
			}
		}
		for _, st := range c.streams {
			st.posKd = "pchannel"
		}
		startC(false)
		tag := int64(0)
		cur := ts(1700000000000, 0)
		feedData := func(n int) {
			for i := 0; i < n; i++ {
				st := c.streams[rapid.IntRange(0, ns-1).Draw(t, "dataShard")]
				tag++
				p := &packDef{stream: st, idx: len(st.script), id: []byte(fmt.Sprintf("c0s%dp%d", st.shard, len(st.script))), begin: cur, end: cur + 1<<18}
				p.msgs = []*msgDef{{kind: "insert", ts: cur + 1, tag: tag, rows: 1, part: parts[rapid.IntRange(0, 1).Draw(t, "part")], pack: p}}
				cur += 2 << 18
				st.script = append(st.script, p)
				w.feedNext(st)
			}
		}
		feedData(rapid.IntRange(0, 3).Draw(t, "packsBefore"))
		if stopResume {
			if b, ok := w.quiesce(20 * time.Second); !ok {
				t.Fatalf("VERIF-TROUBLE quiesce: %s", b)
			}
			if err := w.mgr.StopReadCollection(w.taskCtx(), c.info); err != nil {
				t.Fatalf("VERIF-TROUBLE StopReadCollection: %v", err)
			}
			if b, ok := w.quiesce(20 * time.Second); !ok {
				t.Fatalf("VERIF-TROUBLE quiesce after the stop: %s", b)
			}
			startC(true)
			feedData(rapid.IntRange(0, 2).Draw(t, "packsAfterResume"))
		}
		dropTs := ts(1700000009000, 0)
		for _, i := range rapid.Permutation(seq(ns)).Draw(t, "dropOrder") {
			st := c.streams[i]
			tag++
			p := &packDef{stream: st, idx: len(st.script), id: []byte(fmt.Sprintf("c0s%dpdrop", st.shard)), begin: dropTs - 1, end: dropTs + 1<<18}
			p.msgs = []*msgDef{{kind: kind, ts: dropTs, tag: tag, part: parts[1], pack: p}}
			st.script = append(st.script, p)
			if !w.feedNext(st) {
				t.Fatalf("VERIF-TROUBLE the drop could not be fed on %s", st.srcV)
			}
		}
		if b, ok := w.quiesce(40 * time.Second); !ok {
			t.Fatalf("VERIF-TROUBLE quiescence not reached: %s", b)
		}
		out, events := w.snapshot()
		drops := 0
		for _, ev := range events {
			switch ev.EventType {
			case api.ReplicateDropCollection, api.ReplicateDropPartition:
				if (kind == "dropCollection") != (ev.EventType == api.ReplicateDropCollection) || ev.CollectionInfo.GetID() != c.id {
					t.Fatalf("unexpected drop request %v\n%s", ev.EventType, w.dump(out))
				}
				drops++
			case api.ReplicateError:
				t.Fatalf("error event raised (repeated=%v stopAndStartAgain=%v %s, %d shards): %v\n%s", repeatStart, stopResume, kind, ns, ev.Error, w.dump(out))
			}
		}
		if os.Getenv("VERIF_TRACE") != "" {
			fmt.Printf("TRACE case kind=%s repeat=%v stopResume=%v shards=%d drops=%d events=%d\n", kind, repeatStart, stopResume, ns, drops, len(events))
		}
		if drops != 1 {
			t.Fatalf("every shard delivered the %s message but %d drop requests were issued (repeated notification=%v, stop and start again=%v, %d shards)\n%s", kind, drops, repeatStart, stopResume, ns, w.dump(out))
		}
		sc.Class("lifecycle:" + kind)
		sc.ClassIf(repeatStart, "repeated-notification-overlapping-the-first")
		sc.ClassIf(stopResume, "stop-and-start-again-on-the-same-manager")
		sc.Class(fmt.Sprintf("shards:%d", ns))
		sc.NonTrivial((repeatStart || stopResume) && ns >= 2)
		sc.Fingerprint(fmt.Sprint("life", kind, repeatStart, stopResume, idx, w.hist))
		sc.Sample(map[string]any{"kind": kind, "repeated_notification": repeatStart, "stop_and_start_again": stopResume, "shards": ns})
		sc.Done()
	})
}
