package hreader

import (
	"os"
	"strings"
	"testing"

	deadlock "github.com/sasha-s/go-deadlock"
	"go.uber.org/zap/zapcore"

	"github.com/zilliztech/milvus-cdc/core/log"
	"github.com/zilliztech/milvus-cdc/core/util"

	"verifharness/stats"
)

func TestMain(m *testing.M) {
	log.SetLevel(zapcore.FatalLevel)
	if lv := os.Getenv("VERIF_LOGLEVEL"); lv != "" { // debugging aid: VERIF_LOGLEVEL=debug
		if l, err := zapcore.ParseLevel(lv); err == nil {
			log.SetLevel(l)
		}
	}
	// The pinned petermattis/goid (2018) reads a wrong offset of runtime.g under the sandbox's Go 1.23 and returns the
	// same id for every goroutine, so go-deadlock reports "recursive locking" (and exits the process) as soon as two
	// goroutines hold one RWMutex for reading. That is a toolchain artefact, not behaviour of milvus-cdc: switch the
	// detector off (the locks then behave as plain sync.RWMutex / sync.Mutex).
	deadlock.Opts.Disable = true
	util.InitMilvusPkgParam()
	stats.Main(m.Run)
}

func tier() string {
	if v := os.Getenv("VERIF_TIER"); v != "" {
		return v
	}
	return "quick"
}

func known(id string) bool {
	for _, k := range strings.Split(os.Getenv("VERIF_KNOWN"), ",") {
		if k == id {
			return true
		}
	}
	return false
}
