package hreader

import (
	"github.com/zilliztech/milvus-cdc/core/model"
	"github.com/zilliztech/milvus-cdc/core/pb"
)

type failer interface {
	Fatalf(format string, args ...any)
}

type modelDB struct{ name string }

func (m *modelDB) info() *model.DatabaseInfo { return &model.DatabaseInfo{Name: m.name} }

func partInfo(c *collDef, p *partDef) *pb.PartitionInfo {
	return &pb.PartitionInfo{PartitionID: p.sid, PartitionName: p.name, CollectionId: c.id, State: pb.PartitionState_PartitionCreated, PartitionCreatedTimestamp: 1}
}
