package hreader

// C01 (stream complete / duplicate-free / ordered / payload-exact / attributed) and
// C02 (re-addressing and routing). Same generated worlds, separate oracles and statistics.

import (
	"bytes"
	"fmt"
	"os"
	"sort"
	"strings"
	"sync/atomic"
	"testing"
	"time"

	"google.golang.org/protobuf/proto"
	"pgregory.net/rapid"

	"github.com/milvus-io/milvus-proto/go-api/v2/commonpb"
	"github.com/milvus-io/milvus-proto/go-api/v2/msgpb"
	"github.com/milvus-io/milvus/pkg/mq/msgstream"
	"github.com/milvus-io/milvus/pkg/util/funcutil"

	"github.com/zilliztech/milvus-cdc/core/api"
	"github.com/zilliztech/milvus-cdc/core/model"
	"github.com/zilliztech/milvus-cdc/core/reader"

	"verifharness/stats"
)

type genOpts struct {
	allowSkew      bool
	allowLatePart  bool
	allowAbsent    bool
	dropCollection bool
	sameName       bool // TestC02_SameName: same-named collections in different databases, late partition ids frequent
	repeatNotify   bool // TestC01_Repeat: collections are also notified twice (concurrently at start, or again later)
}

type genInfo struct {
	n          int
	aligned    bool
	shared     bool // two streams share a downstream channel
	latePart   bool
	absentColl bool
	beginZero  bool
	equalTs    bool
	posKinds   map[string]bool
	interleave bool // a registration action after the first feed
	unregistered int
	opts         genOpts
	endStamped   bool
	repeats      int // repeated notifications issued
	repeatConc   int // of which concurrent with the first one
}

// genWorld draws catalog, placements and per-shard scripts.
func genWorld(t *rapid.T, w *world, o genOpts) *genInfo {
	gi := &genInfo{posKinds: map[string]bool{}, opts: o}
	n := rapid.IntRange(1, 3).Draw(t, "pchannels")
	gi.n = n
	gi.aligned = !o.allowSkew || rapid.IntRange(0, 9).Draw(t, "skewed") < 6
	nc := rapid.IntRange(1, 3).Draw(t, "collections")
	tag := int64(0)
	usedTgt := map[string]int{}
	for ci := 0; ci < nc; ci++ {
		ns := rapid.IntRange(1, min(n, 2)).Draw(t, "shards")
		srcIdx := drawSubset(t, n, ns, "srcPlacement")
		tgtIdx := srcIdx
		if !gi.aligned {
			tgtIdx = drawSubset(t, n, ns, "tgtPlacement")
		}
		parts := []*partDef{{name: "_default"}}
		if rapid.Bool().Draw(t, "namedPartition") {
			p := &partDef{name: "p1"}
			if o.allowLatePart && (rare(t, "latePartitionID", 3) || (o.sameName && rapid.IntRange(0, 2).Draw(t, "latePartitionIDSameName") == 0)) {
				p.lateID = true
				gi.latePart = true
			}
			parts = append(parts, p)
		}
		absent := o.allowAbsent && rare(t, "absentDownstream", 3)
		gi.absentColl = gi.absentColl || absent
		db := rapid.SampledFrom([]string{"default", "default", "db1"}).Draw(t, "db")
		if o.sameName {
			db = []string{"default", "db1", "db2"}[ci]
			w.sameName = true
		}
		c := w.addCollection(ci, db, srcIdx, tgtIdx, parts, absent)
		for _, st := range c.streams {
			usedTgt[toP(st.tgtV)]++
			st.posKd = rapid.SampledFrom([]string{"nil", "pchannel", "vchannel"}).Draw(t, "positionKind")
			gi.posKinds[st.posKd] = true
			st.offset = uint64(rapid.SampledFrom([]int{0, 0, 3, 1000, 120000}).Draw(t, "clockSkewMs"))
			np := rapid.IntRange(1, 7).Draw(t, "packs")
			cur := ts(1700000000000+st.offset, 0)
			for pi := 0; pi < np; pi++ {
				p := &packDef{stream: st, idx: pi, id: []byte(fmt.Sprintf("c%ds%dp%d", ci, st.shard, pi))}
				p.begin = cur
				if pi == 0 && rapid.IntRange(0, 3).Draw(t, "beginZero") == 0 {
					p.begin = 0
					gi.beginZero = true
				}
				nm := rapid.IntRange(0, 3).Draw(t, "msgs")
				mt := cur
				for mi := 0; mi < nm; mi++ {
					if mi == 0 || rapid.IntRange(0, 2).Draw(t, "sameTs") != 0 {
						mt += uint64(rapid.IntRange(1, 3).Draw(t, "dts"))
					} else {
						gi.equalTs = true
					}
					kind := rapid.SampledFrom([]string{"insert", "insert", "insert", "delete", "delete", "tick", "createPartition", "createCollection", "unsupported"}).Draw(t, "kind")
					tag++
					m := &msgDef{kind: kind, ts: mt, tag: tag, pack: p}
					switch kind {
					case "insert":
						m.rows = rapid.IntRange(1, 3).Draw(t, "rows")
						m.part = parts[rapid.IntRange(0, len(parts)-1).Draw(t, "part")]
					case "delete":
						m.rows = rapid.IntRange(1, 3).Draw(t, "rows")
						if rapid.IntRange(0, 3).Draw(t, "deleteNoPartition") != 0 {
							m.part = parts[rapid.IntRange(0, len(parts)-1).Draw(t, "part")]
						}
					}
					p.msgs = append(p.msgs, m)
				}
				cur = mt + uint64(rapid.IntRange(1, 4).Draw(t, "gap"))<<18
				p.end = cur
				if (o.repeatNotify || o.sameName) && p.begin == 0 && nm > 0 && rapid.IntRange(0, 2).Draw(t, "allStampedAtPackEnd") == 0 {
					// a first pack after a subscription (BeginTs = 0) whose messages all carry the pack's end time (e.g. an upsert
					// stamped with the closing tick). Only in the tests with their own draw sequence (TestC01_Repeat, TestC02_SameName).
					for _, m := range p.msgs {
						m.ts = mt
					}
					p.end = mt
					cur = mt + 1<<18
					gi.equalTs = gi.equalTs || nm > 1
					gi.endStamped = true
				}
				st.script = append(st.script, p)
			}
		}
	}
	for _, k := range usedTgt {
		if k > 1 {
			gi.shared = true
		}
	}
	return gi
}

// rare is true in about pct % of the cases; the trigger values avoid the boundaries rapid is biased towards.
func rare(t *rapid.T, label string, pct int) bool {
	v := rapid.IntRange(0, 9999).Draw(t, label) % 100
	return v >= 41 && v < 41+pct
}

func min(a, b int) int {
	if a < b {
		return a
	}
	return b
}

func drawSubset(t *rapid.T, n, k int, label string) []int {
	perm := rapid.Permutation(seq(n)).Draw(t, label)
	r := append([]int(nil), perm[:k]...)
	sort.Ints(r)
	return r
}

func seq(n int) []int {
	r := make([]int, n)
	for i := range r {
		r[i] = i
	}
	return r
}

// drive interleaves StartReadCollection / AddPartition / feed actions.
func drive(t *rapid.T, w *world, gi *genInfo) {
	// downstream creation of absent collections happens when the create event is seen
	w.onEvent = func(ev *api.ReplicateAPIEvent) {
		if ev.EventType == api.ReplicateCreateCollection {
			for _, c := range w.colls {
				if c.id == ev.CollectionInfo.ID {
					w.putDownstream(c)
				}
			}
		}
	}
	pending := append([]*collDef(nil), w.colls...)
	fedAny := false
	for steps := 0; steps < 400; steps++ {
		var feedable []*streamDef
		for _, c := range w.colls {
			if !c.started {
				continue
			}
			for _, st := range c.streams {
				if st.next < len(st.script) {
					feedable = append(feedable, st)
				}
			}
		}
		if len(pending) == 0 && len(feedable) == 0 {
			break
		}
		startNow := len(feedable) == 0 || (len(pending) > 0 && rapid.IntRange(0, 2).Draw(t, "startNext") == 0)
		if startNow && len(pending) > 0 {
			c := pending[0]
			pending = pending[1:]
			if fedAny {
				gi.interleave = true
			}
			// a repeated notification about the same collection (the catalog listing and the watch both report it) must have
			// no further effect: here the second one runs concurrently with the first
			var concErr chan error
			if gi.opts.repeatNotify && rapid.IntRange(0, 3).Draw(t, "concurrentRepeat") == 0 {
				concErr = make(chan error, 1)
				// line the two callers up inside their downstream lookup (after the early already-replicating check, before
				// the collection is recorded): each waits there until the other has arrived too (or 100 ms: only a schedule aid)
				var arrived atomic.Int32
				both := make(chan struct{})
				w.tgt.SetBeforeCollectionInfo(func(db, name string) {
					if name != c.name {
						return
					}
					if arrived.Add(1) == 2 {
						close(both)
					}
					select {
					case <-both:
					case <-time.After(100 * time.Millisecond):
					}
				})
				defer w.tgt.SetBeforeCollectionInfo(nil)
				go func() {
					concErr <- w.mgr.StartReadCollection(w.taskCtx(), &model.DatabaseInfo{Name: c.db}, c.info, c.seek, nil)
				}()
				gi.repeats++
				gi.repeatConc++
				w.hist = append(w.hist, "start-twice-concurrently("+c.name+")")
			}
			if err := w.start(c); err != nil {
				if concErr != nil {
					t.Fatalf("a repeated notification of collection %s had an effect: StartReadCollection failed: %v\n%s", c.name, err, w.dump(nil))
				}
				t.Fatalf("VERIF-TROUBLE StartReadCollection(%s): %v", c.name, err)
			}
			if concErr != nil {
				if err := <-concErr; err != nil {
					t.Fatalf("a repeated notification of collection %s had an effect: the concurrent StartReadCollection failed: %v\n%s", c.name, err, w.dump(nil))
				}
			}
			anyReg := false
			for _, st := range c.streams {
				if !w.waitRegistered(st, 20*time.Second) {
					// never registered (no handler can own the channel yet): its packs cannot be fed
					st.script = st.script[:st.next]
					gi.unregistered++
				} else {
					anyReg = true
				}
			}
			for _, p := range c.parts {
				if p.name != "_default" && anyReg {
					if err := w.mgr.AddPartition(w.taskCtx(), (&modelDB{c.db}).info(), c.info, partInfo(c, p)); err != nil {
						t.Fatalf("VERIF-TROUBLE AddPartition(%s.%s): %v", c.name, p.name, err)
					}
					p.registered = true
				}
			}
			w.hist = append(w.hist, "start("+c.name+")")
			continue
		}
		if gi.opts.repeatNotify && rapid.IntRange(0, 7).Draw(t, "repeatLater") == 0 {
			// the same, later: a started collection is notified again between two packs
			var started []*collDef
			for _, c := range w.colls {
				if c.started {
					started = append(started, c)
				}
			}
			c := started[rapid.IntRange(0, len(started)-1).Draw(t, "repeatColl")]
			if err := w.mgr.StartReadCollection(w.taskCtx(), &model.DatabaseInfo{Name: c.db}, c.info, c.seek, nil); err != nil {
				t.Fatalf("a repeated notification of collection %s had an effect: StartReadCollection failed: %v\n%s", c.name, err, w.dump(nil))
			}
			gi.repeats++
			w.hist = append(w.hist, "start-again("+c.name+")")
		}
		st := feedable[rapid.IntRange(0, len(feedable)-1).Draw(t, "feed")]
		if w.feedNext(st) {
			fedAny = true
			w.hist = append(w.hist, fmt.Sprintf("feed(%s#%d)", st.srcV, st.next-1))
		} else {
			st.script = st.script[:st.next]
		}
	}
}

type oracleStats struct {
	forwarded   bool
	tickOnly    int
	dataPacks   int
	errorEvents int
	msgsChecked int
	excludedSplit int
}

// checkC01C02 runs after quiescence.
func checkC01C02(t failer, w *world, prop string) *oracleStats {
	os := &oracleStats{}
	out, events := w.snapshot()
	// no stream is ever stopped in these runs: a source shard that was subscribed more than once would be read twice
	for _, c := range w.colls {
		for _, st := range c.streams {
			if n := w.disp.RegisterCount(st.srcV); n > 1 {
				t.Fatalf("source shard %s has been subscribed %d times (a repeated notification started a second reader)\n%s", st.srcV, n, w.dump(out))
			}
		}
	}
	byID := map[string]*packDef{}
	byTag := map[int64]*msgDef{}
	for _, c := range w.colls {
		for _, st := range c.streams {
			for _, p := range st.script {
				byID[string(p.id)] = p
				for _, m := range p.msgs {
					byTag[m.tag] = m
				}
			}
		}
	}
	errStreams := false
	for _, ev := range events {
		if ev.EventType == api.ReplicateError {
			os.errorEvents++
			errStreams = true
		}
	}
	lastIdx := map[*streamDef]int{}
	lastData := map[*streamDef]int{}
	lastTick := map[*streamDef]int{}
	// F-C01-forward-overtake (known finding): a stream whose data packs are forwarded to another downstream channel
	// emits its tick-only packs directly on its handler's own channel; the two paths are not ordered with each other.
	// Such streams are recognised from the output (tick-only packs and data packs arrive on different channels) and
	// only for them the order between a tick-only pack and a data pack is not compared (counted in the evidence).
	dataChan, tickChan := map[*streamDef]string{}, map[*streamDef]string{}
	for _, o := range out {
		if src := byID[string(o.rm.MsgPack.EndPositions[0].MsgID)]; src != nil {
			n := 0
			for _, m := range o.rm.MsgPack.Msgs {
				if m.Type() != commonpb.MsgType_TimeTick {
					n++
				}
			}
			if n > 0 {
				dataChan[src.stream] = o.channel
			} else {
				tickChan[src.stream] = o.channel
			}
		}
	}
	splitStream := func(st *streamDef) bool {
		return known("F-C01-forward-overtake") && dataChan[st] != "" && tickChan[st] != "" && dataChan[st] != tickChan[st]
	}
	shardOf := map[*streamDef]string{}
	usedShard := map[string]*streamDef{}
	for _, o := range out {
		mp := o.rm.MsgPack
		if len(mp.EndPositions) == 0 {
			t.Fatalf("emitted pack without end position on %s", o.channel)
		}
		src := byID[string(mp.EndPositions[0].MsgID)]
		if src == nil {
			t.Fatalf("emitted pack on %s carries position id %q which was never read from the source", o.channel, mp.EndPositions[0].MsgID)
		}
		st := src.stream
		src.emitSeq = append(src.emitSeq, o.seq)
		if prop == "C01" {
			// (5) order & attribution
			if len(src.emitSeq) > 1 {
				t.Fatalf("source pack %s was handed over twice", src.id)
			}
			isData := false
			for _, m := range mp.Msgs {
				isData = isData || m.Type() != commonpb.MsgType_TimeTick
			}
			if splitStream(st) {
				os.excludedSplit++
				last := lastTick
				if isData {
					last = lastData
				}
				if li, ok := last[st]; ok && src.idx <= li {
					t.Fatalf("packs of stream %s handed over out of order: pack #%d after #%d\n%s", st.srcV, src.idx, li, w.dump(out))
				}
				last[st] = src.idx
			} else {
				if li, ok := lastIdx[st]; ok && src.idx <= li {
					t.Fatalf("packs of stream %s handed over out of order: pack #%d after #%d\n%s", st.srcV, src.idx, li, w.dump(out))
				}
				lastIdx[st] = src.idx
			}
			if o.rm.CollectionID != st.coll.id || o.rm.CollectionName != st.coll.name || o.rm.PChannelName != st.srcP || o.rm.TaskID != w.taskID {
				t.Fatalf("pack %s derived from stream %s (collection %d/%s, source channel %s, task %s) is labelled collection %d/%q channel %q task %q",
					src.id, st.srcV, st.coll.id, st.coll.name, st.srcP, w.taskID, o.rm.CollectionID, o.rm.CollectionName, o.rm.PChannelName, o.rm.TaskID)
			}
		}
		nData := 0
		var emittedTags []int64
		for _, m := range mp.Msgs {
			if m.Type() == commonpb.MsgType_TimeTick {
				continue
			}
			nData++
			tag := int64(-1)
			switch x := m.(type) {
			case *msgstream.InsertMsg:
				tag = x.Base.MsgID
			case *msgstream.DeleteMsg:
				tag = x.Base.MsgID
			case *msgstream.DropPartitionMsg:
				tag = x.Base.MsgID
			case *msgstream.DropCollectionMsg:
				tag = x.Base.MsgID
			default:
				t.Fatalf("message of type %v emitted on %s: only insert/delete/drop-partition/drop-collection are replicated", m.Type(), o.channel)
			}
			fm := byTag[tag]
			if fm == nil || fm.src == nil {
				t.Fatalf("emitted %v message (id %d) on %s was never read from the source", m.Type(), tag, o.channel)
			}
			fm.emitted++
			emittedTags = append(emittedTags, tag)
			os.msgsChecked++
			if prop == "C01" {
				if fm.emitted > 1 {
					t.Fatalf("source message %d (%s of %s) emitted twice", tag, fm.kind, fm.pack.id)
				}
				if fm.pack != src {
					t.Fatalf("message %d read in pack %s is emitted inside the pack derived from %s", tag, fm.pack.id, src.id)
				}
				checkPayload(t, fm, m)
			} else {
				checkAddressing(t, w, o, fm, m, st, shardOf, usedShard)
			}
		}
		if nData == 0 {
			os.tickOnly++
		} else {
			os.dataPacks++
		}
		if prop == "C01" && nData > 0 {
			// (3) source-time order inside the pack: non-decreasing, deletes before inserts at equal time
			for i := 1; i < len(emittedTags); i++ {
				a, b := byTag[emittedTags[i-1]], byTag[emittedTags[i]]
				if a.ts > b.ts {
					t.Fatalf("pack %s: message %d (source time %d) emitted before message %d (source time %d)", src.id, a.tag, a.ts, b.tag, b.ts)
				}
				if a.ts == b.ts && a.kind == "insert" && b.kind == "delete" {
					t.Fatalf("pack %s: insert %d precedes delete %d of equal source time %d", src.id, a.tag, b.tag, a.ts)
				}
			}
		}
		if prop == "C02" {
			tp := funcutil.ToPhysicalChannel
			for _, p := range append(append([]*msgpb.MsgPosition(nil), mp.StartPositions...), mp.EndPositions...) {
				if p.ChannelName != o.channel {
					t.Fatalf("pack %s delivered on %s carries a pack position naming %q", src.id, o.channel, p.ChannelName)
				}
			}
			_ = tp
		}
	}
	// completeness (C01 (2)): every fed supported message emitted exactly once, unless an error event was raised
	if prop == "C01" {
		for _, c := range w.colls {
			for _, st := range c.streams {
				for _, p := range st.script {
					if p.fedSeq == 0 {
						continue
					}
					for _, m := range p.msgs {
						if !supported(m.kind) || m.optional {
							continue
						}
						if m.emitted == 0 && !errStreams {
							t.Fatalf("source message %d (%s, pack %s of stream %s) was read but never handed to the writer\n%s", m.tag, m.kind, p.id, st.srcV, w.dump(out))
						}
					}
				}
			}
		}
	}
	return os
}

func checkPayload(t failer, fm *msgDef, m msgstream.TsMsg) {
	switch x := m.(type) {
	case *msgstream.InsertMsg:
		want := proto.Clone(fm.src).(*msgpb.InsertRequest)
		got := proto.Clone(x.InsertRequest).(*msgpb.InsertRequest)
		// only these may be rewritten
		got.CollectionID, want.CollectionID = 0, 0
		got.PartitionID, want.PartitionID = 0, 0
		got.ShardName, want.ShardName = "", ""
		got.Timestamps, want.Timestamps = nil, nil
		got.Base.Timestamp, want.Base.Timestamp = 0, 0
		if len(x.InsertRequest.Timestamps) != int(x.InsertRequest.NumRows) {
			t.Fatalf("insert %d: %d row timestamps for %d rows", fm.tag, len(x.InsertRequest.Timestamps), x.InsertRequest.NumRows)
		}
		if !proto.Equal(got, want) {
			t.Fatalf("insert %d: payload changed\n got  %v\n want %v", fm.tag, got, want)
		}
	case *msgstream.DeleteMsg:
		want := proto.Clone(fm.src).(*msgpb.DeleteRequest)
		got := proto.Clone(x.DeleteRequest).(*msgpb.DeleteRequest)
		got.CollectionID, want.CollectionID = 0, 0
		got.PartitionID, want.PartitionID = 0, 0
		got.ShardName, want.ShardName = "", ""
		got.Timestamps, want.Timestamps = nil, nil
		got.Base.Timestamp, want.Base.Timestamp = 0, 0
		if !proto.Equal(got, want) {
			t.Fatalf("delete %d: payload changed\n got  %v\n want %v", fm.tag, got, want)
		}
	case *msgstream.DropPartitionMsg:
		want := proto.Clone(fm.src).(*msgpb.DropPartitionRequest)
		got := proto.Clone(x.DropPartitionRequest).(*msgpb.DropPartitionRequest)
		got.CollectionID, want.CollectionID = 0, 0
		got.PartitionID, want.PartitionID = 0, 0
		got.Base.Timestamp, want.Base.Timestamp = 0, 0
		if !proto.Equal(got, want) {
			t.Fatalf("drop-partition %d: payload changed\n got  %v\n want %v", fm.tag, got, want)
		}
	case *msgstream.DropCollectionMsg:
		want := proto.Clone(fm.src).(*msgpb.DropCollectionRequest)
		got := proto.Clone(x.DropCollectionRequest).(*msgpb.DropCollectionRequest)
		got.CollectionID, want.CollectionID = 0, 0
		got.Base.Timestamp, want.Base.Timestamp = 0, 0
		if !proto.Equal(got, want) {
			t.Fatalf("drop-collection %d: payload changed\n got  %v\n want %v", fm.tag, got, want)
		}
	}
}

func checkAddressing(t failer, w *world, o *outPack, fm *msgDef, m msgstream.TsMsg, st *streamDef, shardOf map[*streamDef]string, usedShard map[string]*streamDef) {
	c := st.coll
	var collID, partID int64
	var shard, partName string
	hasShard, hasPart := false, false
	switch x := m.(type) {
	case *msgstream.InsertMsg:
		collID, partID, shard, partName, hasShard, hasPart = x.CollectionID, x.PartitionID, x.ShardName, x.PartitionName, true, true
	case *msgstream.DeleteMsg:
		collID, partID, shard, partName, hasShard = x.CollectionID, x.PartitionID, x.ShardName, x.PartitionName, true
		hasPart = partName != ""
	case *msgstream.DropPartitionMsg:
		collID, partID, partName, hasPart = x.CollectionID, x.PartitionID, x.PartitionName, true
	case *msgstream.DropCollectionMsg:
		collID = x.CollectionID
	}
	if collID != c.tid {
		t.Fatalf("%s %d of collection %s carries collection id %d, downstream id of the same-named collection is %d", fm.kind, fm.tag, c.name, collID, c.tid)
	}
	if hasPart {
		var want int64 = -12345
		for _, p := range c.parts {
			if p.name == partName {
				want = p.tid
			}
		}
		if partID != want {
			t.Fatalf("%s %d of %s/%s carries partition id %d, downstream id of the same-named partition is %d", fm.kind, fm.tag, c.name, partName, partID, want)
		}
	}
	if hasShard {
		ok := false
		for _, v := range c.tgtVChan {
			ok = ok || v == shard
		}
		if !ok {
			t.Fatalf("%s %d of %s carries shard name %q which is not a downstream virtual channel of the collection %v", fm.kind, fm.tag, c.name, shard, c.tgtVChan)
		}
		if prev, seen := shardOf[st]; seen && prev != shard {
			t.Fatalf("source shard %s is mapped to two downstream shards %s and %s", st.srcV, prev, shard)
		}
		shardOf[st] = shard
		if other := usedShard[shard]; other != nil && other != st {
			t.Fatalf("downstream shard %s receives two source shards %s and %s", shard, other.srcV, st.srcV)
		}
		usedShard[shard] = st
		if funcutil.ToPhysicalChannel(shard) != o.channel {
			t.Fatalf("%s %d addressed to downstream shard %s was delivered on the output stream of %s", fm.kind, fm.tag, shard, o.channel)
		}
	}
	// message position: downstream pchannel or its vchannel, source message id kept
	pos := m.Position()
	if pos == nil {
		t.Fatalf("%s %d emitted without position", fm.kind, fm.tag)
	}
	okName := pos.ChannelName == o.channel || (funcutil.ToPhysicalChannel(pos.ChannelName) == o.channel && strings.Contains(pos.ChannelName, "v"))
	if !okName {
		t.Fatalf("%s %d delivered on %s carries a position naming %q", fm.kind, fm.tag, o.channel, pos.ChannelName)
	}
	// the fed message id (nil positions have none)
	var wantID []byte
	if st.posKd != "nil" {
		for i, mm := range fm.pack.msgs {
			if mm == fm {
				wantID = append(append([]byte(nil), fm.pack.id...), byte('#'), byte('0'+i))
			}
		}
	}
	if !bytes.Equal(pos.MsgID, wantID) {
		t.Fatalf("%s %d: position message id %q, source message id %q", fm.kind, fm.tag, pos.MsgID, wantID)
	}
}

func (w *world) dump(out []*outPack) string {
	var b strings.Builder
	b.WriteString("history: " + strings.Join(w.hist, " ") + "\n")
	for _, o := range out {
		fmt.Fprintf(&b, "  out#%d on %s pack=%s coll=%s pch=%q:", o.seq, o.channel, o.rm.MsgPack.EndPositions[0].MsgID, o.rm.CollectionName, o.rm.PChannelName)
		for _, m := range o.rm.MsgPack.Msgs {
			fmt.Fprintf(&b, " %v@%d", m.Type(), m.BeginTs())
		}
		b.WriteString("\n")
	}
	return b.String()
}

func propC01C02(t *rapid.T, prop string) { propC01C02Opts(t, prop, false, false) }

func propC01C02Opts(t *rapid.T, prop string, repeatNotify, sameName bool) {
	sc := stats.New(prop)
	wo := worldOpts{ttIntervalMs: rapid.SampledFrom([]int{1, 10000000}).Draw(t, "ttInterval"), bufSize: rapid.SampledFrom([]int{1, 4, 16}).Draw(t, "bufSize")}
	if sameName {
		// (only in the test with its own draw sequence) channel numbers in prefix relation: dml_1 / dml_10
		wo.prefixRelatedChannelNumbers = rapid.Bool().Draw(t, "prefixRelatedChannelNumbers")
	}
	w := newWorld(wo)
	defer w.close()
	w.reverseTargetLists = wo.prefixRelatedChannelNumbers && rapid.Bool().Draw(t, "downstreamListsShardsInReverseOrder")
	if os.Getenv("VERIF_TRACE") != "" { // debugging aid: trace the instrumented points of the pack handler
		reader.SetVerifYield(func(point, ch string, src, out *api.ReplicateMsg) {
			id := ""
			if src != nil && src.MsgPack != nil && len(src.MsgPack.EndPositions) > 0 {
				id = string(src.MsgPack.EndPositions[0].MsgID)
			}
			fmt.Printf("TRACE %s on %s pack=%s msgs=%d\n", point, ch, id, len(src.MsgPack.Msgs))
		})
		defer reader.SetVerifYield(nil)
	}
	gi := genWorld(t, w, genOpts{allowSkew: true, allowLatePart: true, allowAbsent: true, repeatNotify: repeatNotify, sameName: sameName})
	drive(t, w, gi)
	if os.Getenv("VERIF_TRACE") != "" {
		fmt.Printf("TRACE catalog %v\n", w.describe())
	}
	if busy, ok := w.quiesce(30 * time.Second); !ok {
		t.Fatalf("VERIF-TROUBLE quiescence not reached: %s", busy)
	}
	res := checkC01C02(t, w, prop)
	for k := range gi.posKinds {
		sc.Class("positions:" + k)
	}
	sc.ClassIf(gi.aligned, "placement:aligned")
	sc.ClassIf(!gi.aligned, "placement:skewed")
	sc.ClassIf(gi.shared, "shared-downstream-channel")
	sc.ClassIf(gi.beginZero, "beginTs=0")
	sc.ClassIf(gi.equalTs, "equal-ts-group")
	sc.ClassIf(gi.latePart, "late-partition-id")
	sc.ClassIf(gi.absentColl, "collection-created-by-event")
	sc.ClassIf(gi.interleave, "registration-after-first-feed")
	sc.ClassIf(sameName, "same-named-collections-in-different-databases")
	sc.ClassIf(wo.prefixRelatedChannelNumbers, "channel-numbers-in-prefix-relation(dml_1/dml_10)")
	sc.ClassIf(gi.endStamped, "beginTs=0-pack-with-all-messages-at-the-pack-end-time")
	sc.ClassIf(gi.repeats > 0, "repeated-notification")
	sc.ClassIf(gi.repeatConc > 0, "repeated-notification-concurrent")
	sc.ClassIf(gi.unregistered > 0, "stream-waiting-for-free-channel(not fed)")
	sc.ClassIf(res.errorEvents > 0, "replicate-error-event")
	sc.ClassIf(res.tickOnly > 0, "tick-only-pack-emitted")
	sc.Count("messages_compared", res.msgsChecked)
	sc.Count("data_packs", res.dataPacks)
	sc.Count("packs_excluded_by_F-C01-forward-overtake", res.excludedSplit)
	sc.ClassIf(res.excludedSplit > 0, "forwarded-stream(order tick/data not compared)")
	if prop == "C01" {
		sc.NonTrivial((gi.shared && res.dataPacks >= 2) || gi.interleave)
	} else {
		sc.NonTrivial(!gi.aligned || gi.latePart || gi.shared)
	}
	sc.Fingerprint(map[string]any{"catalog": w.describe(), "actions": w.hist})
	sc.Sample(map[string]any{"catalog": w.describe(), "actions": w.hist, "emitted_data_packs": res.dataPacks, "emitted_tick_only_packs": res.tickOnly})
	sc.Done()
}

func (w *world) describe() []string {
	var r []string
	for _, c := range w.colls {
		for _, st := range c.streams {
			var ps []string
			for _, p := range st.script {
				var ms []string
				for _, m := range p.msgs {
					ms = append(ms, fmt.Sprintf("%s@%d", m.kind, m.ts&0xffffff))
				}
				b := "b"
				if p.begin == 0 {
					b = "b0"
				}
				ps = append(ps, b+"["+strings.Join(ms, ",")+"]")
			}
			r = append(r, fmt.Sprintf("%s.%s %s->%s pos=%s skew=%dms packs=%s", c.db, c.name, st.srcV, st.tgtV, st.posKd, st.offset, strings.Join(ps, " ")))
		}
	}
	return r
}

func TestC01(t *testing.T) { rapid.Check(t, func(t *rapid.T) { propC01C02(t, "C01") }) }

// TestC01_Repeat: the same property with repeated notifications of collections in the action sequence (kept as a separate test
// so that the draw sequence - and the saved regression inputs - of TestC01 stay unchanged).
func TestC01_Repeat(t *testing.T) {
	rapid.Check(t, func(t *rapid.T) { propC01C02Opts(t, "C01", true, false) })
}
func TestC02(t *testing.T) { rapid.Check(t, func(t *rapid.T) { propC01C02(t, "C02") }) }

// TestC02_SameName: the routing oracle over catalogs in which every collection has the same name (each in its own database) and
// downstream partition ids are often learned only after the first message (separate test: TestC02's draw sequence is unchanged).
func TestC02_SameName(t *testing.T) {
	rapid.Check(t, func(t *rapid.T) { propC01C02Opts(t, "C02", false, true) })
}

// TestC16_Manager (property C16, manager level): the generated catalogs have the same number of physical channels on both
// sides, so the assignment of source channels to downstream channels made by the manager (direct assignment, waiting handlers,
// forwarding) must be one-to-one and must never change. It is read off the tick-only packs, which always leave on the channel
// the stream's handler is bound to (data packs may be forwarded to the channel hosting their shard).
func TestC16_Manager(t *testing.T) {
	rapid.Check(t, func(t *rapid.T) {
		sc := stats.New("C16")
		w := newWorld(worldOpts{ttIntervalMs: 1, bufSize: rapid.SampledFrom([]int{1, 4, 16}).Draw(t, "bufSize")})
		defer w.close()
		// contended catalogs: 2..3 channels per side, 3..5 single-shard collections whose downstream placement prefers
		// channel 0, so that source channels are offered with a channel that is already taken (they wait) and offered again
		gi := &genInfo{posKinds: map[string]bool{}}
		n := rapid.IntRange(2, 3).Draw(t, "pchannels")
		gi.n = n
		nc := rapid.IntRange(3, 5).Draw(t, "collections")
		tag := int64(0)
		// model of the direct assignments in start order (collections are started in index order)
		assigned := map[int]int{} // source channel -> downstream channel
		used := map[int]bool{}    // downstream channels taken by a direct assignment
		excludedStaleForward := 0
		for ci := 0; ci < nc; ci++ {
			src := rapid.IntRange(0, n-1).Draw(t, "src")
			tgt := 0
			if rapid.IntRange(0, 9).Draw(t, "tgtZero") >= 6 {
				tgt = rapid.IntRange(0, n-1).Draw(t, "tgt")
			}
			if cur, ok := assigned[src]; ok && cur != tgt && !used[tgt] && known("F-C16-stale-forward") {
				// F-C16-stale-forward (known finding): offering a source channel that already has a handler together with a
				// downstream channel nobody holds yet reserves that channel for a waiting handler; the reservation is not seen by
				// a later direct assignment of the same channel. While the finding is listed such offers are not generated.
				tgt = cur
				excludedStaleForward++
			}
			if _, ok := assigned[src]; !ok && !used[tgt] {
				assigned[src], used[tgt] = tgt, true
			}
			gi.aligned = gi.aligned && src == tgt
			c := w.addCollection(ci, "default", []int{src}, []int{tgt}, []*partDef{{name: "_default"}}, false)
			st := c.streams[0]
			st.posKd = "pchannel"
			cur := ts(1700000000000, 0)
			for pi := 0; pi < rapid.IntRange(1, 3).Draw(t, "packs"); pi++ {
				p := &packDef{stream: st, idx: pi, id: []byte(fmt.Sprintf("c%ds0p%d", ci, pi)), begin: cur}
				mt := cur
				if rapid.Bool().Draw(t, "withRow") {
					mt++
					tag++
					p.msgs = append(p.msgs, &msgDef{kind: "insert", ts: mt, tag: tag, rows: 1, part: c.parts[0], pack: p})
				}
				cur = mt + 2<<18
				p.end = cur
				st.script = append(st.script, p)
			}
		}
		drive(t, w, gi)
		if busy, ok := w.quiesce(30 * time.Second); !ok {
			t.Fatalf("VERIF-TROUBLE quiescence not reached: %s", busy)
		}
		// one more empty pack per live stream after the tick period has elapsed: it is emitted as a tick-only pack
		time.Sleep(3 * time.Millisecond)
		for _, c := range w.colls {
			st := c.streams[0]
			if !c.started || !w.disp.Registered(st.srcV) {
				continue
			}
			last := ts(1700000100000, 0)
			st.script = append(st.script[:st.next], &packDef{stream: st, idx: 99, id: []byte(fmt.Sprintf("c%ds0p99", c.idx)), begin: last, end: last + 1<<18})
			w.feedNext(st)
			time.Sleep(2 * time.Millisecond)
		}
		if busy, ok := w.quiesce(30 * time.Second); !ok {
			t.Fatalf("VERIF-TROUBLE quiescence not reached: %s", busy)
		}
		out, _ := w.snapshot()
		bound := map[string]string{}  // source pchannel -> downstream channel of its handler
		served := map[string]string{} // downstream channel -> source pchannel
		for _, o := range out {
			data := false
			for _, m := range o.rm.MsgPack.Msgs {
				data = data || m.Type() != commonpb.MsgType_TimeTick
			}
			src := o.rm.PChannelName
			if data || src == "" {
				continue
			}
			if prev, ok := bound[src]; ok && prev != o.channel {
				t.Fatalf("the assignment of source channel %s changed from %s to %s\n%s", src, prev, o.channel, w.dump(out))
			}
			bound[src] = o.channel
			if other, ok := served[o.channel]; ok && other != src {
				t.Fatalf("downstream channel %s serves two source channels %s and %s although both sides have %d channels (one-to-one expected)\n%s", o.channel, other, src, gi.n, w.dump(out))
			}
			served[o.channel] = src
		}
		sc.ClassIf(gi.unregistered > 0, "stream-waiting-for-free-channel")
		sc.ClassIf(len(bound) >= 2, "two-or-more-source-channels-bound")
		sc.Count("source_channels_bound", len(bound))
		sc.Count("offers_excluded_by_F-C16-stale-forward", excludedStaleForward)
		sc.NonTrivial(gi.unregistered > 0 && len(bound) >= 1)
		sc.Fingerprint(map[string]any{"catalog": w.describe(), "actions": w.hist})
		sc.Sample(map[string]any{"catalog": w.describe(), "assignment": bound})
		sc.Done()
	})
}

// TestC01_Drop: the stream of a multi-shard collection contains a drop-partition message (one upstream DDL: same time on every
// shard) and the shards are read with a drawn skew. Inserts and deletes addressed to the partition occur only BEFORE the drop
// message of their own shard, so none of them is addressed to a partition that is already dropped on both sides - the downstream
// drop is requested only after every shard delivered the drop message. Every one of them must be handed over, also those of a
// lagging shard that are read after another shard has already passed the drop. (The per-shard drop messages themselves may be
// filtered.) Same two-sided oracle as TestC01.
func TestC01_Drop(t *testing.T) {
	rapid.Check(t, func(t *rapid.T) {
		sc := stats.New("C01")
		w := newWorld(worldOpts{ttIntervalMs: rapid.SampledFrom([]int{1, 10000000}).Draw(t, "ttInterval"), bufSize: rapid.SampledFrom([]int{1, 4}).Draw(t, "bufSize")})
		defer w.close()
		ns := rapid.IntRange(2, 3).Draw(t, "shards")
		idx := drawSubset(t, 3, ns, "placement")
		parts := []*partDef{{name: "_default"}, {name: "p1"}}
		c := w.addCollection(0, rapid.SampledFrom([]string{"default", "db1"}).Draw(t, "db"), idx, idx, parts, false)
		if err := w.start(c); err != nil {
			t.Fatalf("VERIF-TROUBLE start: %v", err)
		}
		for _, st := range c.streams {
			st.posKd = rapid.SampledFrom([]string{"nil", "pchannel"}).Draw(t, "positionKind")
			if !w.waitRegistered(st, 20*time.Second) {
				t.Fatalf("VERIF-TROUBLE stream %s not registered", st.srcV)
			}
		}
		if b, ok := w.quiesce(20 * time.Second); !ok {
			t.Fatalf("VERIF-TROUBLE quiesce: %s", b)
		}
		if err := w.mgr.AddPartition(w.taskCtx(), (&modelDB{c.db}).info(), c.info, partInfo(c, parts[1])); err != nil {
			t.Fatalf("VERIF-TROUBLE AddPartition: %v", err)
		}
		parts[1].registered = true
		dropTs := ts(1700000009000, 0)
		tag := int64(0)
		dropPack := map[*streamDef]*packDef{}
		for _, st := range c.streams {
			cur := ts(1700000000000+uint64(rapid.SampledFrom([]int{0, 3, 1000}).Draw(t, "clockSkewMs")), 0)
			pi := 0
			mk := func(kinds []string, at *uint64, part func() *partDef) *packDef {
				p := &packDef{stream: st, idx: pi, id: []byte(fmt.Sprintf("c0s%dp%d", st.shard, pi)), begin: *at}
				mt := *at
				for _, k := range kinds {
					mt += uint64(rapid.IntRange(1, 3).Draw(t, "dts"))
					tag++
					m := &msgDef{kind: k, ts: mt, tag: tag, rows: 1, pack: p}
					if k == "insert" || k == "delete" {
						m.part = part()
					}
					p.msgs = append(p.msgs, m)
				}
				*at = mt + uint64(rapid.IntRange(1, 3).Draw(t, "gap"))<<18
				p.end = *at
				pi++
				return p
			}
			anyPart := func() *partDef { return parts[rapid.IntRange(0, 1).Draw(t, "part")] }
			for k := rapid.IntRange(0, 3).Draw(t, "packsBeforeDrop"); k > 0; k-- {
				var kinds []string
				for n := rapid.IntRange(1, 2).Draw(t, "msgs"); n > 0; n-- {
					kinds = append(kinds, rapid.SampledFrom([]string{"insert", "delete", "delete"}).Draw(t, "kind"))
				}
				st.script = append(st.script, mk(kinds, &cur, anyPart))
			}
			at := dropTs - 1
			dp := mk([]string{"dropPartition"}, &at, nil)
			dp.msgs[0].ts = dropTs
			dp.msgs[0].part = parts[1]
			dp.msgs[0].optional = true
			dp.end = dropTs + 1<<18
			dropPack[st] = dp
			st.script = append(st.script, dp)
			cur = dp.end
			for k := rapid.IntRange(0, 2).Draw(t, "packsAfterDrop"); k > 0; k-- {
				st.script = append(st.script, mk([]string{rapid.SampledFrom([]string{"insert", "delete"}).Draw(t, "kindAfter")}, &cur, func() *partDef { return parts[0] }))
			}
		}
		behindADrop := 0 // messages of the partition read on one shard after another shard had passed the drop
		for step := 0; step < 100; step++ {
			var feedable []*streamDef
			for _, st := range c.streams {
				if st.next < len(st.script) {
					feedable = append(feedable, st)
				}
			}
			if len(feedable) == 0 {
				break
			}
			st := feedable[rapid.IntRange(0, len(feedable)-1).Draw(t, "feed")]
			p := st.script[st.next]
			otherPassed := false
			for _, o := range c.streams {
				if o != st && dropPack[o].fedSeq != 0 {
					otherPassed = true
				}
			}
			if w.feedNext(st) {
				w.hist = append(w.hist, fmt.Sprintf("feed(%s#%d)", st.srcV, st.next-1))
				for _, m := range p.msgs {
					if otherPassed && m.part == parts[1] && (m.kind == "insert" || m.kind == "delete") {
						behindADrop++
					}
				}
			}
		}
		if busy, ok := w.quiesce(30 * time.Second); !ok {
			t.Fatalf("VERIF-TROUBLE quiescence not reached: %s", busy)
		}
		res := checkC01C02(t, w, "C01")
		_, events := w.snapshot()
		drops := 0
		for _, ev := range events {
			if ev.EventType == api.ReplicateDropPartition {
				drops++
			}
		}
		sc.Class("drop-partition-in-the-stream")
		sc.ClassIf(behindADrop > 0, "partition-messages-read-after-another-shard-passed-the-drop")
		sc.ClassIf(drops == 1, "drop-requested")
		sc.Count("messages_compared", res.msgsChecked)
		sc.NonTrivial(behindADrop > 0)
		sc.Fingerprint(map[string]any{"catalog": w.describe(), "actions": w.hist})
		sc.Sample(map[string]any{"catalog": w.describe(), "actions": w.hist, "partition_messages_behind_a_drop": behindADrop})
		sc.Done()
	})
}
