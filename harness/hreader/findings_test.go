package hreader

// Deterministic demonstrations of the known findings of the reader (listed in /verif/known_findings.json).
// Each prints FINDING-PRESENT <id> while the defect is in the tree and FINDING-ABSENT <id> once it is gone.

import (
	"fmt"
	"testing"
	"time"

	"github.com/milvus-io/milvus-proto/go-api/v2/commonpb"
)

func mkPack(st *streamDef, idx int, begin uint64, kinds ...string) *packDef {
	p := &packDef{stream: st, idx: idx, begin: begin, id: []byte(fmt.Sprintf("%s#p%d", st.srcV, idx))}
	mt := begin
	for i, k := range kinds {
		mt += 2
		m := &msgDef{kind: k, ts: mt, tag: int64(1000*(st.coll.idx+1) + 100*st.shard + 10*idx + i + 1), rows: 1, part: st.coll.parts[0], pack: p}
		p.msgs = append(p.msgs, m)
	}
	p.end = mt + 1<<18
	return p
}

// F-C01-forward-overtake: coll0 binds src-dml_0 to tgt-dml_1; coll1 lives on src-dml_0 upstream but on tgt-dml_0
// downstream, so its data is forwarded to the handler serving tgt-dml_0 while its tick-only packs (which carry the
// stream's checkpoint position) leave directly on tgt-dml_1: two unordered paths for one source stream.
func TestFinding_C01_ForwardOvertake(t *testing.T) {
	w := newWorld(worldOpts{ttIntervalMs: 1, bufSize: 4})
	defer w.close()
	c0 := w.addCollection(0, "default", []int{0}, []int{1}, []*partDef{{name: "_default"}}, false)
	c1 := w.addCollection(1, "default", []int{0, 1}, []int{0, 1}, []*partDef{{name: "_default"}}, false)
	for _, c := range []*collDef{c0, c1} {
		if err := w.start(c); err != nil {
			t.Fatalf("VERIF-TROUBLE start: %v", err)
		}
		for _, st := range c.streams {
			st.posKd = "pchannel"
			if !w.waitRegistered(st, 10*time.Second) {
				t.Fatalf("VERIF-TROUBLE %s not registered", st.srcV)
			}
		}
	}
	st := c1.streams[0] // src-dml_0 -> tgt-dml_0 (skewed against coll0's src-dml_0 -> tgt-dml_1)
	base := ts(1700000000000, 0)
	st.script = []*packDef{mkPack(st, 0, base, "insert"), mkPack(st, 1, base+2<<18)}
	w.feedNext(st)
	if b, ok := w.quiesce(20 * time.Second); !ok {
		t.Fatalf("VERIF-TROUBLE quiesce: %s", b)
	}
	time.Sleep(3 * time.Millisecond) // let the 1 ms tick period elapse so that the tick-only pack is emitted
	w.feedNext(st)
	if b, ok := w.quiesce(20 * time.Second); !ok {
		t.Fatalf("VERIF-TROUBLE quiesce: %s", b)
	}
	out, _ := w.snapshot()
	dataCh, tickCh := "", ""
	for _, o := range out {
		id := string(o.rm.MsgPack.EndPositions[0].MsgID)
		n := 0
		for _, m := range o.rm.MsgPack.Msgs {
			if m.Type() != commonpb.MsgType_TimeTick {
				n++
			}
		}
		if id == string(st.script[0].id) && n > 0 {
			dataCh = o.channel
		}
		if id == string(st.script[1].id) && n == 0 {
			tickCh = o.channel
		}
	}
	fmt.Printf("data pack of %s left on %q, its tick-only pack on %q\n", st.srcV, dataCh, tickCh)
	if dataCh == "" || tickCh == "" {
		t.Fatalf("VERIF-TROUBLE demonstration did not produce both packs\n%s", w.dump(out))
	}
	if dataCh != tickCh {
		fmt.Println("FINDING-PRESENT F-C01-forward-overtake")
	} else {
		fmt.Println("FINDING-ABSENT F-C01-forward-overtake")
	}
}

// F-C04-partition-barrier-undersized: AddPartition sizes the drop barrier by the number of handlers that hold the
// collection at the moment it runs. The subscription of shard 1 is still in progress (slow message queue) when the
// partition is registered, so the barrier expects 1 signal instead of 2: the drop request is issued as soon as shard 0
// delivers the drop-partition message although shard 1 has not reached it.
func TestFinding_C04_PartitionBarrierUndersized(t *testing.T) {
	w := newWorld(worldOpts{ttIntervalMs: 10000000, bufSize: 4})
	defer w.close()
	parts := []*partDef{{name: "_default"}, {name: "p1"}}
	c := w.addCollection(0, "default", []int{0, 1}, []int{0, 1}, parts, false)
	gate := make(chan struct{})
	w.disp.HoldRegister = func(v string) {
		if v == c.streams[1].srcV {
			<-gate
		}
	}
	if err := w.start(c); err != nil {
		t.Fatalf("VERIF-TROUBLE start: %v", err)
	}
	if !w.waitRegistered(c.streams[0], 10*time.Second) {
		t.Fatalf("VERIF-TROUBLE shard 0 not registered")
	}
	if err := w.mgr.AddPartition(w.taskCtx(), (&modelDB{c.db}).info(), c.info, partInfo(c, parts[1])); err != nil {
		t.Fatalf("VERIF-TROUBLE AddPartition: %v", err)
	}
	close(gate)
	if !w.waitRegistered(c.streams[1], 10*time.Second) {
		t.Fatalf("VERIF-TROUBLE shard 1 not registered")
	}
	st := c.streams[0]
	st.posKd = "pchannel"
	p := mkPack(st, 0, ts(1700000000000, 0), "dropPartition")
	p.msgs[0].part = parts[1]
	st.script = []*packDef{p}
	w.feedNext(st)
	if b, ok := w.quiesce(20 * time.Second); !ok {
		t.Fatalf("VERIF-TROUBLE quiesce: %s", b)
	}
	_, events := w.snapshot()
	n := 0
	for _, ev := range events {
		if ev.EventType == 4 { // api.ReplicateDropPartition
			n++
		}
	}
	fmt.Printf("drop-partition requests after 1 of 2 shards delivered the drop message: %d\n", n)
	if n > 0 {
		fmt.Println("FINDING-PRESENT F-C04-partition-barrier-undersized")
	} else {
		fmt.Println("FINDING-ABSENT F-C04-partition-barrier-undersized")
	}
}
