package hreader

// Deterministic demonstrations of the known findings of the reader (listed in /verif/known_findings.json).
// Each prints FINDING-PRESENT <id> while the defect is in the tree and FINDING-ABSENT <id> once it is gone.

import (
	"fmt"
	"testing"
	"time"

	"github.com/milvus-io/milvus-proto/go-api/v2/commonpb"
	"github.com/milvus-io/milvus-proto/go-api/v2/msgpb"
	"github.com/milvus-io/milvus/pkg/util/tsoutil"

	"github.com/zilliztech/milvus-cdc/core/reader"
)

func mkPack(st *streamDef, idx int, begin uint64, kinds ...string) *packDef {
	p := &packDef{stream: st, idx: idx, begin: begin, id: []byte(fmt.Sprintf("%s#p%d", st.srcV, idx))}
	mt := begin
	for i, k := range kinds {
		mt += 2
		m := &msgDef{kind: k, ts: mt, tag: int64(1000*(st.coll.idx+1) + 100*st.shard + 10*idx + i + 1), rows: 1, part: st.coll.parts[0], pack: p}
		p.msgs = append(p.msgs, m)
	}
	p.end = mt + 1<<18
	return p
}

// F-C01-forward-overtake: coll0 binds src-dml_0 to tgt-dml_1; coll1 lives on src-dml_0 upstream but on tgt-dml_0
// downstream, so its data is forwarded to the handler serving tgt-dml_0 while its tick-only packs (which carry the
// stream's checkpoint position) leave directly on tgt-dml_1: two unordered paths for one source stream.
func TestFinding_C01_ForwardOvertake(t *testing.T) {
	w := newWorld(worldOpts{ttIntervalMs: 1, bufSize: 4})
	defer w.close()
	c0 := w.addCollection(0, "default", []int{0}, []int{1}, []*partDef{{name: "_default"}}, false)
	c1 := w.addCollection(1, "default", []int{0, 1}, []int{0, 1}, []*partDef{{name: "_default"}}, false)
	for _, c := range []*collDef{c0, c1} {
		if err := w.start(c); err != nil {
			t.Fatalf("VERIF-TROUBLE start: %v", err)
		}
		for _, st := range c.streams {
			st.posKd = "pchannel"
			if !w.waitRegistered(st, 10*time.Second) {
				t.Fatalf("VERIF-TROUBLE %s not registered", st.srcV)
			}
		}
	}
	st := c1.streams[0] // src-dml_0 -> tgt-dml_0 (skewed against coll0's src-dml_0 -> tgt-dml_1)
	base := ts(1700000000000, 0)
	st.script = []*packDef{mkPack(st, 0, base, "insert"), mkPack(st, 1, base+2<<18)}
	w.feedNext(st)
	if b, ok := w.quiesce(20 * time.Second); !ok {
		t.Fatalf("VERIF-TROUBLE quiesce: %s", b)
	}
	time.Sleep(3 * time.Millisecond) // let the 1 ms tick period elapse so that the tick-only pack is emitted
	w.feedNext(st)
	if b, ok := w.quiesce(20 * time.Second); !ok {
		t.Fatalf("VERIF-TROUBLE quiesce: %s", b)
	}
	out, _ := w.snapshot()
	dataCh, tickCh := "", ""
	for _, o := range out {
		id := string(o.rm.MsgPack.EndPositions[0].MsgID)
		n := 0
		for _, m := range o.rm.MsgPack.Msgs {
			if m.Type() != commonpb.MsgType_TimeTick {
				n++
			}
		}
		if id == string(st.script[0].id) && n > 0 {
			dataCh = o.channel
		}
		if id == string(st.script[1].id) && n == 0 {
			tickCh = o.channel
		}
	}
	fmt.Printf("data pack of %s left on %q, its tick-only pack on %q\n", st.srcV, dataCh, tickCh)
	if dataCh == "" || tickCh == "" {
		t.Fatalf("VERIF-TROUBLE demonstration did not produce both packs\n%s", w.dump(out))
	}
	if dataCh != tickCh {
		fmt.Println("FINDING-PRESENT F-C01-forward-overtake")
	} else {
		fmt.Println("FINDING-ABSENT F-C01-forward-overtake")
	}
}

// F-C04-partition-barrier-undersized: AddPartition sizes the drop barrier by the number of handlers that hold the
// collection at the moment it runs. The subscription of shard 1 is still in progress (slow message queue) when the
// partition is registered, so the barrier expects 1 signal instead of 2: the drop request is issued as soon as shard 0
// delivers the drop-partition message although shard 1 has not reached it.
func TestFinding_C04_PartitionBarrierUndersized(t *testing.T) {
	w := newWorld(worldOpts{ttIntervalMs: 10000000, bufSize: 4})
	defer w.close()
	parts := []*partDef{{name: "_default"}, {name: "p1"}}
	c := w.addCollection(0, "default", []int{0, 1}, []int{0, 1}, parts, false)
	gate := make(chan struct{})
	w.disp.HoldRegister = func(v string) {
		if v == c.streams[1].srcV {
			<-gate
		}
	}
	if err := w.start(c); err != nil {
		t.Fatalf("VERIF-TROUBLE start: %v", err)
	}
	if !w.waitRegistered(c.streams[0], 10*time.Second) {
		t.Fatalf("VERIF-TROUBLE shard 0 not registered")
	}
	if err := w.mgr.AddPartition(w.taskCtx(), (&modelDB{c.db}).info(), c.info, partInfo(c, parts[1])); err != nil {
		t.Fatalf("VERIF-TROUBLE AddPartition: %v", err)
	}
	close(gate)
	if !w.waitRegistered(c.streams[1], 10*time.Second) {
		t.Fatalf("VERIF-TROUBLE shard 1 not registered")
	}
	st := c.streams[0]
	st.posKd = "pchannel"
	p := mkPack(st, 0, ts(1700000000000, 0), "dropPartition")
	p.msgs[0].part = parts[1]
	st.script = []*packDef{p}
	w.feedNext(st)
	if b, ok := w.quiesce(20 * time.Second); !ok {
		t.Fatalf("VERIF-TROUBLE quiesce: %s", b)
	}
	_, events := w.snapshot()
	n := 0
	for _, ev := range events {
		if ev.EventType == 4 { // api.ReplicateDropPartition
			n++
		}
	}
	fmt.Printf("drop-partition requests after 1 of 2 shards delivered the drop message: %d\n", n)
	if n > 0 {
		fmt.Println("FINDING-PRESENT F-C04-partition-barrier-undersized")
	} else {
		fmt.Println("FINDING-ABSENT F-C04-partition-barrier-undersized")
	}
}

// F-C03-resume-order: two collections share the downstream channel tgt-dml_0. Before the stop collection B got further than
// collection A (its later packs raised the clock of the channel). After the stop only A is resumed - or A first - from its
// checkpoint: the channel clock restarts at the time of A's checkpoint, below the closing ticks already emitted for B.
func TestFinding_C03_ResumeOrder(t *testing.T) {
	const id = "F-C03-resume-order"
	mk := func(w *world, i int, from, n int, cur uint64, tag *int64) (*collDef, uint64) {
		c := w.addCollection(i, "default", []int{0}, []int{0}, []*partDef{{name: "_default"}}, false)
		st := c.streams[0]
		st.posKd = "pchannel"
		for pi := from; pi < from+n; pi++ {
			p := &packDef{stream: st, idx: pi, id: []byte(fmt.Sprintf("c%dp%d", i, pi)), begin: cur}
			*tag++
			p.msgs = append(p.msgs, &msgDef{kind: "insert", ts: cur + 1, tag: *tag, rows: 1, part: c.parts[0], pack: p})
			cur += 4 << 18
			p.end = cur
			st.script = append(st.script, p)
		}
		return c, cur
	}
	w1 := newWorld(worldOpts{ttIntervalMs: 10000000, bufSize: 4})
	tag := int64(0)
	base := ts(1700000000000, 0)
	a, curA := mk(w1, 0, 0, 1, base, &tag)
	b, _ := mk(w1, 1, 0, 3, base, &tag)
	for _, c := range []*collDef{a, b} {
		if err := w1.start(c); err != nil {
			t.Fatalf("VERIF-TROUBLE start: %v", err)
		}
		if !w1.waitRegistered(c.streams[0], 10*time.Second) {
			t.Fatalf("VERIF-TROUBLE not registered")
		}
	}
	w1.feedNext(a.streams[0])
	for i := 0; i < 3; i++ {
		w1.feedNext(b.streams[0])
	}
	if bz, ok := w1.quiesce(20 * time.Second); !ok {
		t.Fatalf("VERIF-TROUBLE quiesce: %s", bz)
	}
	out1, _ := w1.snapshot()
	var lastTick uint64
	var cpA *c03Checkpoint
	for _, o := range out1 {
		mp := o.rm.MsgPack
		if n := len(mp.Msgs); n > 0 && mp.Msgs[n-1].Type() == commonpb.MsgType_TimeTick && mp.Msgs[n-1].EndTs() > lastTick {
			lastTick = mp.Msgs[n-1].EndTs()
		}
		if o.rm.CollectionID == a.id {
			ms, _ := tsoutil.ParseHybridTs(mp.EndTs)
			cpA = &c03Checkpoint{msgID: append([]byte(nil), mp.EndPositions[0].MsgID...), timeMs: ms, sourceTs: o.rm.SourceEndTs}
		}
	}
	w1.close()
	reader.ResetTSManagerForVerif()
	if cpA == nil || lastTick == 0 {
		t.Fatalf("VERIF-TROUBLE nothing emitted before the stop")
	}
	w2 := newWorld(worldOpts{ttIntervalMs: 10000000, bufSize: 4})
	defer w2.close()
	a2, _ := mk(w2, 0, 100, 1, curA, &tag)
	st := a2.streams[0]
	positionTs := tsoutil.ComposeTS(cpA.timeMs+1, 0)
	var startTs map[string]uint64
	if cpA.sourceTs > 0 && cpA.sourceTs < positionTs {
		startTs = map[string]uint64{st.srcP: positionTs}
		positionTs = cpA.sourceTs
	}
	seek := []*msgpb.MsgPosition{{ChannelName: st.srcP, MsgID: cpA.msgID, Timestamp: positionTs}}
	if err := w2.mgr.StartReadCollection(w2.taskCtx(), (&modelDB{a2.db}).info(), a2.info, seek, startTs); err != nil {
		t.Fatalf("VERIF-TROUBLE resume: %v", err)
	}
	if !w2.waitRegistered(st, 10*time.Second) {
		t.Fatalf("VERIF-TROUBLE not registered after the resume")
	}
	w2.feedNext(st)
	if bz, ok := w2.quiesce(20 * time.Second); !ok {
		t.Fatalf("VERIF-TROUBLE quiesce: %s", bz)
	}
	out2, _ := w2.snapshot()
	back := false
	for _, o := range out2 {
		mp := o.rm.MsgPack
		if n := len(mp.Msgs); n > 0 && mp.Msgs[n-1].Type() == commonpb.MsgType_TimeTick && mp.Msgs[n-1].EndTs() < lastTick {
			fmt.Printf("closing tick %d after the resume, %d had been emitted on the channel before it\n", mp.Msgs[n-1].EndTs(), lastTick)
			back = true
		}
	}
	if len(out2) == 0 {
		t.Fatalf("VERIF-TROUBLE nothing emitted after the resume")
	}
	if back {
		fmt.Println("FINDING-PRESENT " + id)
	} else {
		fmt.Println("FINDING-ABSENT " + id)
	}
}

// F-C16-stale-forward: 3 physical channels on both sides. coll0 binds src-dml_0 to tgt-dml_1. coll1 lives on src-dml_0 too but on
// tgt-dml_0 downstream: the manager reserves tgt-dml_0 for a waiting handler (there is none yet). coll2 (src-dml_1 -> tgt-dml_0)
// takes tgt-dml_0 by a direct assignment, which does not see the reservation. coll3 (src-dml_2 -> tgt-dml_0) has to wait, receives
// the stale reservation and is bound to tgt-dml_0 as well: one downstream channel serves two source channels although the counts
// are equal (tgt-dml_2 stays unused).
func TestFinding_C16_StaleForward(t *testing.T) {
	const id = "F-C16-stale-forward"
	w := newWorld(worldOpts{ttIntervalMs: 1, bufSize: 4})
	defer w.close()
	place := [][2]int{{0, 1}, {0, 0}, {1, 0}, {2, 0}}
	for i, pl := range place {
		c := w.addCollection(i, "default", []int{pl[0]}, []int{pl[1]}, []*partDef{{name: "_default"}}, false)
		c.streams[0].posKd = "pchannel"
		if err := w.start(c); err != nil {
			t.Fatalf("VERIF-TROUBLE start: %v", err)
		}
		w.waitRegistered(c.streams[0], 10*time.Second)
	}
	if b, ok := w.quiesce(20 * time.Second); !ok {
		t.Fatalf("VERIF-TROUBLE quiesce: %s", b)
	}
	time.Sleep(3 * time.Millisecond)
	base := ts(1700000100000, 0)
	for _, c := range w.colls {
		st := c.streams[0]
		if !w.disp.Registered(st.srcV) {
			continue
		}
		st.script = []*packDef{{stream: st, idx: 0, id: []byte(fmt.Sprintf("c%dp0", c.idx)), begin: base, end: base + 1<<18}}
		w.feedNext(st)
		time.Sleep(2 * time.Millisecond)
	}
	if b, ok := w.quiesce(20 * time.Second); !ok {
		t.Fatalf("VERIF-TROUBLE quiesce: %s", b)
	}
	out, _ := w.snapshot()
	served := map[string]map[string]bool{}
	for _, o := range out {
		if o.rm.PChannelName == "" {
			continue
		}
		if served[o.channel] == nil {
			served[o.channel] = map[string]bool{}
		}
		served[o.channel][o.rm.PChannelName] = true
	}
	fmt.Printf("downstream channel -> source channels whose tick-only packs leave on it: %v\n", served)
	present := false
	for _, m := range served {
		present = present || len(m) > 1
	}
	if present {
		fmt.Println("FINDING-PRESENT " + id)
	} else {
		fmt.Println("FINDING-ABSENT " + id)
	}
}
