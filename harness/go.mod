module verifharness

go 1.23

toolchain go1.23.5

require (
	github.com/milvus-io/milvus-proto/go-api/v2 v2.5.0-beta.0.20250214033407-ad08272e542b
	github.com/milvus-io/milvus-sdk-go/v2 v2.4.2
	github.com/milvus-io/milvus/pkg v0.0.2-0.20250217075414-a4dbbc2e52c1
	github.com/sasha-s/go-deadlock v0.3.2-0.20240530143741-ed6f7f6d979c
	github.com/zilliztech/milvus-cdc/core v0.0.1
	github.com/zilliztech/milvus-cdc/server v0.0.0
	go.etcd.io/etcd/client/v3 v3.5.5
	go.etcd.io/etcd/server/v3 v3.5.5
	go.uber.org/zap v1.27.0
	google.golang.org/grpc v1.65.0
	google.golang.org/protobuf v1.34.2
	pgregory.net/rapid v1.3.0
)

require (
	github.com/99designs/keyring v1.2.1 // indirect
	github.com/AthenZ/athenz v1.10.39 // indirect
	github.com/DataDog/zstd v1.5.0 // indirect
	github.com/apache/pulsar-client-go v0.6.1-0.20210728062540-29414db801a7 // indirect
	github.com/ardielle/ardielle-go v1.5.2 // indirect
	github.com/beorn7/perks v1.0.1 // indirect
	github.com/blang/semver/v4 v4.0.0 // indirect
	github.com/cenkalti/backoff/v4 v4.2.1 // indirect
	github.com/cespare/xxhash/v2 v2.3.0 // indirect
	github.com/cilium/ebpf v0.11.0 // indirect
	github.com/cockroachdb/errors v1.9.1 // indirect
	github.com/cockroachdb/logtags v0.0.0-20211118104740-dabe8e521a4f // indirect
	github.com/cockroachdb/redact v1.1.3 // indirect
	github.com/confluentinc/confluent-kafka-go v1.9.1 // indirect
	github.com/confluentinc/confluent-kafka-go/v2 v2.5.3 // indirect
	github.com/containerd/cgroups/v3 v3.0.3 // indirect
	github.com/coreos/go-semver v0.3.0 // indirect
	github.com/coreos/go-systemd/v22 v22.3.2 // indirect
	github.com/davecgh/go-spew v1.1.1 // indirect
	github.com/docker/go-units v0.5.0 // indirect
	github.com/dustin/go-humanize v1.0.0 // indirect
	github.com/dvsekhvalnov/jose2go v1.6.0 // indirect
	github.com/form3tech-oss/jwt-go v3.2.3+incompatible // indirect
	github.com/getsentry/sentry-go v0.12.0 // indirect
	github.com/go-logr/logr v1.4.2 // indirect
	github.com/go-logr/stdr v1.2.2 // indirect
	github.com/go-sql-driver/mysql v1.7.1 // indirect
	github.com/goccy/go-json v0.10.2 // indirect
	github.com/godbus/dbus v0.0.0-20190726142602-4481cbc300e2 // indirect
	github.com/godbus/dbus/v5 v5.0.4 // indirect
	github.com/gogo/protobuf v1.3.2 // indirect
	github.com/golang-jwt/jwt v3.2.2+incompatible // indirect
	github.com/golang/protobuf v1.5.4 // indirect
	github.com/golang/snappy v0.0.4 // indirect
	github.com/google/btree v1.1.2 // indirect
	github.com/google/uuid v1.6.0 // indirect
	github.com/gorilla/websocket v1.5.0 // indirect
	github.com/grpc-ecosystem/go-grpc-middleware v1.3.0 // indirect
	github.com/grpc-ecosystem/go-grpc-prometheus v1.2.0 // indirect
	github.com/grpc-ecosystem/grpc-gateway v1.16.0 // indirect
	github.com/grpc-ecosystem/grpc-gateway/v2 v2.16.0 // indirect
	github.com/gsterjov/go-libsecret v0.0.0-20161001094733-a6f4afe4910c // indirect
	github.com/jolestar/go-commons-pool/v2 v2.1.2 // indirect
	github.com/jonboulle/clockwork v0.4.0 // indirect
	github.com/json-iterator/go v1.1.12 // indirect
	github.com/klauspost/compress v1.17.9 // indirect
	github.com/kr/pretty v0.3.1 // indirect
	github.com/kr/text v0.2.0 // indirect
	github.com/linkedin/goavro/v2 v2.11.1 // indirect
	github.com/matttproud/golang_protobuf_extensions v1.0.4 // indirect
	github.com/minio/highwayhash v1.0.2 // indirect
	github.com/mitchellh/mapstructure v1.5.0 // indirect
	github.com/modern-go/concurrent v0.0.0-20180306012644-bacd9c7ef1dd // indirect
	github.com/modern-go/reflect2 v1.0.2 // indirect
	github.com/mtibben/percent v0.2.1 // indirect
	github.com/nats-io/jwt/v2 v2.5.5 // indirect
	github.com/nats-io/nats-server/v2 v2.10.12 // indirect
	github.com/nats-io/nats.go v1.34.1 // indirect
	github.com/nats-io/nkeys v0.4.7 // indirect
	github.com/nats-io/nuid v1.0.1 // indirect
	github.com/opencontainers/runtime-spec v1.0.2 // indirect
	github.com/panjf2000/ants/v2 v2.7.2 // indirect
	github.com/petermattis/goid v0.0.0-20180202154549-b0b1615b78e5 // indirect
	github.com/pierrec/lz4 v2.5.2+incompatible // indirect
	github.com/pkg/errors v0.9.1 // indirect
	github.com/pmezard/go-difflib v1.0.0 // indirect
	github.com/prometheus/client_golang v1.17.0 // indirect
	github.com/prometheus/client_model v0.5.0 // indirect
	github.com/prometheus/common v0.44.0 // indirect
	github.com/prometheus/procfs v0.12.0 // indirect
	github.com/rogpeppe/go-internal v1.10.0 // indirect
	github.com/samber/lo v1.27.0 // indirect
	github.com/shirou/gopsutil/v3 v3.23.12 // indirect
	github.com/sirupsen/logrus v1.9.3 // indirect
	github.com/soheilhy/cmux v0.1.5 // indirect
	github.com/spaolacci/murmur3 v1.1.0 // indirect
	github.com/spf13/cast v1.3.1 // indirect
	github.com/spf13/pflag v1.0.5 // indirect
	github.com/streamnative/pulsarctl v0.5.0 // indirect
	github.com/stretchr/objx v0.5.2 // indirect
	github.com/stretchr/testify v1.9.0 // indirect
	github.com/tecbot/gorocksdb v0.0.0-20191217155057-f0fad39f321c // indirect
	github.com/tidwall/gjson v1.17.0 // indirect
	github.com/tidwall/match v1.1.1 // indirect
	github.com/tidwall/pretty v1.2.0 // indirect
	github.com/tklauser/go-sysconf v0.3.12 // indirect
	github.com/tklauser/numcpus v0.6.1 // indirect
	github.com/tmc/grpc-websocket-proxy v0.0.0-20201229170055-e5319fda7802 // indirect
	github.com/uber/jaeger-client-go v2.30.0+incompatible // indirect
	github.com/x448/float16 v0.8.4 // indirect
	github.com/xiang90/probing v0.0.0-20190116061207-43a291ad63a2 // indirect
	go.etcd.io/bbolt v1.3.6 // indirect
	go.etcd.io/etcd/api/v3 v3.5.5 // indirect
	go.etcd.io/etcd/client/pkg/v3 v3.5.5 // indirect
	go.etcd.io/etcd/client/v2 v2.305.5 // indirect
	go.etcd.io/etcd/pkg/v3 v3.5.5 // indirect
	go.etcd.io/etcd/raft/v3 v3.5.5 // indirect
	go.opentelemetry.io/contrib/instrumentation/google.golang.org/grpc/otelgrpc v0.49.0 // indirect
	go.opentelemetry.io/otel v1.28.0 // indirect
	go.opentelemetry.io/otel/exporters/otlp/otlptrace v1.21.0 // indirect
	go.opentelemetry.io/otel/exporters/otlp/otlptrace/otlptracegrpc v1.21.0 // indirect
	go.opentelemetry.io/otel/metric v1.28.0 // indirect
	go.opentelemetry.io/otel/sdk v1.28.0 // indirect
	go.opentelemetry.io/otel/trace v1.28.0 // indirect
	go.opentelemetry.io/proto/otlp v1.0.0 // indirect
	go.uber.org/atomic v1.10.0 // indirect
	go.uber.org/automaxprocs v1.5.3 // indirect
	go.uber.org/multierr v1.11.0 // indirect
	golang.org/x/crypto v0.31.0 // indirect
	golang.org/x/exp v0.0.0-20240112132812-db7319d0e0e3 // indirect
	golang.org/x/net v0.33.0 // indirect
	golang.org/x/oauth2 v0.20.0 // indirect
	golang.org/x/sync v0.10.0 // indirect
	golang.org/x/sys v0.28.0 // indirect
	golang.org/x/term v0.27.0 // indirect
	golang.org/x/text v0.21.0 // indirect
	golang.org/x/time v0.5.0 // indirect
	google.golang.org/genproto v0.0.0-20240325203815-454cdb8f5daa // indirect
	google.golang.org/genproto/googleapis/api v0.0.0-20240528184218-531527333157 // indirect
	google.golang.org/genproto/googleapis/rpc v0.0.0-20240730163845-b1a4ccb954bf // indirect
	gopkg.in/inf.v0 v0.9.1 // indirect
	gopkg.in/natefinch/lumberjack.v2 v2.0.0 // indirect
	gopkg.in/yaml.v2 v2.4.0 // indirect
	gopkg.in/yaml.v3 v3.0.1 // indirect
	k8s.io/apimachinery v0.29.2 // indirect
	sigs.k8s.io/yaml v1.3.0 // indirect
)

replace (
	github.com/apache/pulsar-client-go => github.com/milvus-io/pulsar-client-go v0.6.10
	github.com/confluentinc/confluent-kafka-go => github.com/confluentinc/confluent-kafka-go/v2 v2.3.0
	github.com/streamnative/pulsarctl => github.com/xiaofan-luan/pulsarctl v0.5.1
	github.com/tecbot/gorocksdb => /repo/rocksdb
	github.com/zilliztech/milvus-cdc/core => /repo/core
	github.com/zilliztech/milvus-cdc/server => /repo/server
)
