package hwriter

// Generators shared by C07/C08/C09/C20: op messages of all 18 kinds, the 4 API events, name mappings,
// and the reference mapping function re-derived from the property text.

import (
	"context"
	"encoding/base64"
	"fmt"
	"sort"
	"strings"
	"time"

	"google.golang.org/protobuf/proto"
	"pgregory.net/rapid"

	"github.com/milvus-io/milvus-proto/go-api/v2/commonpb"
	"github.com/milvus-io/milvus-proto/go-api/v2/milvuspb"
	"github.com/milvus-io/milvus-proto/go-api/v2/msgpb"
	"github.com/milvus-io/milvus-proto/go-api/v2/schemapb"
	"github.com/milvus-io/milvus/pkg/mq/msgstream"

	"github.com/zilliztech/milvus-cdc/core/api"
	"github.com/zilliztech/milvus-cdc/core/config"
	"github.com/zilliztech/milvus-cdc/core/pb"
	"github.com/zilliztech/milvus-cdc/core/writer"

	"verifharness/fakes/handler"
)

var opKinds = []string{
	"CreateDatabase", "DropDatabase", "AlterDatabase", "Flush", "CreateIndex", "DropIndex", "AlterIndex",
	"LoadCollection", "ReleaseCollection", "LoadPartitions", "ReleasePartitions",
	"CreateUser", "DeleteUser", "UpdateUser", "CreateRole", "DropRole", "OperateUserRole", "OperatePrivilege",
}

var eventKinds = []string{"EvCreateCollection", "EvDropCollection", "EvCreatePartition", "EvDropPartition"}

func canonDB(db string) string {
	if db == "" {
		return "default"
	}
	return db
}

// refMap is the reference of "the task's name mapping applied to the source names": a collection-level
// entry, or else a whole-database entry, otherwise unchanged; the empty database name means "default".
func refMap(m map[string]string, db, coll string) (string, string) {
	db = canonDB(db)
	if t, ok := m[db+"."+coll]; ok && coll != "" && coll != "*" {
		p := strings.SplitN(t, ".", 2)
		return p[0], p[1]
	}
	if t, ok := m[db+".*"]; ok {
		return strings.SplitN(t, ".", 2)[0], coll
	}
	return db, coll
}

// refMapDBOnly: admissible target databases for a database-level operation (no collection). A whole-database
// entry decides; if the database only occurs in collection-level entries the statement does not say whether the
// database operation follows them, so both readings are admitted.
func refMapDBOnly(m map[string]string, db string) map[string]bool {
	db = canonDB(db)
	if t, ok := m[db+".*"]; ok {
		return map[string]bool{strings.SplitN(t, ".", 2)[0]: true}
	}
	r := map[string]bool{db: true}
	for k, v := range m {
		if strings.HasPrefix(k, db+".") {
			r[strings.SplitN(v, ".", 2)[0]] = true
		}
	}
	return r
}

type mappingShape string

func genMapping(t *rapid.T, db string, colls []string) (map[string]string, mappingShape) {
	db = canonDB(db)
	shape := mappingShape(rapid.SampledFrom([]string{"none", "exact", "wholedb", "unrelated", "exact+wholedb"}).Draw(t, "mappingShape"))
	m := map[string]string{}
	switch shape {
	case "exact":
		for _, c := range colls {
			m[db+"."+c] = "tdb." + "t" + c
		}
	case "wholedb":
		m[db+".*"] = "tdb.*"
	case "unrelated":
		m["otherdb."+colls[0]] = "xdb.x" + colls[0]
		m["otherdb2.*"] = "zdb.*"
	case "exact+wholedb":
		m[db+"."+colls[0]] = "tdbA.t" + colls[0]
		m[db+".*"] = "tdbB.*"
	}
	if shape != "none" && rapid.Bool().Draw(t, "extraUnrelated") {
		m["otherdb3.q"] = "ydb.yq"
	}
	return m, shape
}

func ident(t *rapid.T, label string) string {
	return rapid.StringMatching(`[a-zA-Z_][a-zA-Z0-9_]{0,8}`).Draw(t, label)
}

func kvs(t *rapid.T, label string) []*commonpb.KeyValuePair {
	n := rapid.IntRange(0, 3).Draw(t, label+"N")
	var r []*commonpb.KeyValuePair
	for i := 0; i < n; i++ {
		r = append(r, &commonpb.KeyValuePair{Key: fmt.Sprintf("k%d_%s", i, ident(t, label+"K")), Value: rapid.StringN(0, 6, -1).Draw(t, label+"V")})
	}
	return r
}

func baseMsg(ts uint64) msgstream.BaseMsg {
	return msgstream.BaseMsg{BeginTimestamp: ts, EndTimestamp: ts, HashValues: []uint32{0}}
}

func srcBase(mt commonpb.MsgType, ts uint64) *commonpb.MsgBase {
	return &commonpb.MsgBase{MsgType: mt, Timestamp: ts, SourceID: 7, MsgID: 42}
}

type opCase struct {
	preStamped bool
	kind       string
	db         string
	coll       string
	colls      []string // Flush
	parts      []string // Load/ReleasePartitions
	ts         uint64
	msg        msgstream.TsMsg
	src        proto.Message // deep copy of the source request, taken before the writer saw it
	method     string        // expected downstream method
}

// genOp builds one op message of the given kind addressed to (db, coll).
func genOp(t *rapid.T, kind, db, coll string, ts uint64) *opCase {
	c := &opCase{kind: kind, db: db, coll: coll, ts: ts, method: kind}
	bm := baseMsg(ts)
	switch kind {
	case "CreateDatabase":
		r := &milvuspb.CreateDatabaseRequest{Base: srcBase(commonpb.MsgType_CreateDatabase, ts), DbName: canonOrName(db)}
		c.msg, c.src = &msgstream.CreateDatabaseMsg{BaseMsg: bm, CreateDatabaseRequest: r}, proto.Clone(r)
	case "DropDatabase":
		r := &milvuspb.DropDatabaseRequest{Base: srcBase(commonpb.MsgType_DropDatabase, ts), DbName: canonOrName(db)}
		c.msg, c.src = &msgstream.DropDatabaseMsg{BaseMsg: bm, DropDatabaseRequest: r}, proto.Clone(r)
	case "AlterDatabase":
		r := &milvuspb.AlterDatabaseRequest{Base: srcBase(commonpb.MsgType_AlterDatabase, ts), DbName: canonOrName(db), Properties: kvs(t, "dbprop")}
		c.msg, c.src = &msgstream.AlterDatabaseMsg{BaseMsg: bm, AlterDatabaseRequest: r}, proto.Clone(r)
	case "Flush":
		c.colls = []string{coll}
		if rapid.Bool().Draw(t, "flushTwo") {
			c.colls = append(c.colls, map[string]string{"c1": "c2", "c2": "c1"}[coll])
		}
		r := &milvuspb.FlushRequest{Base: srcBase(commonpb.MsgType_Flush, ts), DbName: db, CollectionNames: append([]string(nil), c.colls...)}
		c.msg, c.src = &msgstream.FlushMsg{BaseMsg: bm, FlushRequest: r}, proto.Clone(r)
	case "CreateIndex":
		r := &milvuspb.CreateIndexRequest{Base: srcBase(commonpb.MsgType_CreateIndex, ts), DbName: db, CollectionName: coll,
			FieldName: ident(t, "field"), IndexName: ident(t, "index"), ExtraParams: kvs(t, "idxparam")}
		c.msg, c.src = &msgstream.CreateIndexMsg{BaseMsg: bm, CreateIndexRequest: r}, proto.Clone(r)
	case "DropIndex":
		r := &milvuspb.DropIndexRequest{Base: srcBase(commonpb.MsgType_DropIndex, ts), DbName: db, CollectionName: coll,
			FieldName: ident(t, "field"), IndexName: ident(t, "index")}
		c.msg, c.src = &msgstream.DropIndexMsg{BaseMsg: bm, DropIndexRequest: r}, proto.Clone(r)
	case "AlterIndex":
		r := &milvuspb.AlterIndexRequest{Base: srcBase(commonpb.MsgType_AlterIndex, ts), DbName: db, CollectionName: coll,
			IndexName: ident(t, "index"), ExtraParams: append(kvs(t, "idxparam"), &commonpb.KeyValuePair{Key: "mmap.enabled", Value: rapid.SampledFrom([]string{"true", "false"}).Draw(t, "mmap")})}
		c.msg, c.src = &msgstream.AlterIndexMsg{BaseMsg: bm, AlterIndexRequest: r}, proto.Clone(r)
	case "LoadCollection":
		r := &milvuspb.LoadCollectionRequest{Base: srcBase(commonpb.MsgType_LoadCollection, ts), DbName: db, CollectionName: coll,
			ReplicaNumber: rapid.Int32Range(0, 4).Draw(t, "replica"), Refresh: rapid.Bool().Draw(t, "refresh"), LoadFields: nil}
		if rapid.Bool().Draw(t, "rg") {
			r.ResourceGroups = []string{ident(t, "rg")}
		}
		c.msg, c.src = &msgstream.LoadCollectionMsg{BaseMsg: bm, LoadCollectionRequest: r}, proto.Clone(r)
	case "ReleaseCollection":
		r := &milvuspb.ReleaseCollectionRequest{Base: srcBase(commonpb.MsgType_ReleaseCollection, ts), DbName: db, CollectionName: coll}
		c.msg, c.src = &msgstream.ReleaseCollectionMsg{BaseMsg: bm, ReleaseCollectionRequest: r}, proto.Clone(r)
	case "LoadPartitions":
		c.parts = genParts(t)
		r := &milvuspb.LoadPartitionsRequest{Base: srcBase(commonpb.MsgType_LoadPartitions, ts), DbName: db, CollectionName: coll,
			PartitionNames: append([]string(nil), c.parts...), ReplicaNumber: rapid.Int32Range(0, 4).Draw(t, "replica")}
		c.msg, c.src = &msgstream.LoadPartitionsMsg{BaseMsg: bm, LoadPartitionsRequest: r}, proto.Clone(r)
	case "ReleasePartitions":
		c.parts = genParts(t)
		r := &milvuspb.ReleasePartitionsRequest{Base: srcBase(commonpb.MsgType_ReleasePartitions, ts), DbName: db, CollectionName: coll,
			PartitionNames: append([]string(nil), c.parts...)}
		c.msg, c.src = &msgstream.ReleasePartitionsMsg{BaseMsg: bm, ReleasePartitionsRequest: r}, proto.Clone(r)
	case "CreateUser":
		r := &milvuspb.CreateCredentialRequest{Base: srcBase(commonpb.MsgType_CreateCredential, ts), Username: ident(t, "user"), Password: genPwd(t, "pwd")}
		c.msg, c.src = &msgstream.CreateUserMsg{BaseMsg: bm, CreateCredentialRequest: r}, proto.Clone(r)
	case "DeleteUser":
		r := &milvuspb.DeleteCredentialRequest{Base: srcBase(commonpb.MsgType_DeleteCredential, ts), Username: ident(t, "user")}
		c.msg, c.src = &msgstream.DeleteUserMsg{BaseMsg: bm, DeleteCredentialRequest: r}, proto.Clone(r)
	case "UpdateUser":
		r := &milvuspb.UpdateCredentialRequest{Base: srcBase(commonpb.MsgType_UpdateCredential, ts), Username: ident(t, "user"), OldPassword: genPwd(t, "old"), NewPassword: genPwd(t, "new")}
		c.msg, c.src = &msgstream.UpdateUserMsg{BaseMsg: bm, UpdateCredentialRequest: r}, proto.Clone(r)
	case "CreateRole":
		r := &milvuspb.CreateRoleRequest{Base: srcBase(commonpb.MsgType_CreateRole, ts), Entity: &milvuspb.RoleEntity{Name: ident(t, "role")}}
		c.msg, c.src = &msgstream.CreateRoleMsg{BaseMsg: bm, CreateRoleRequest: r}, proto.Clone(r)
	case "DropRole":
		r := &milvuspb.DropRoleRequest{Base: srcBase(commonpb.MsgType_DropRole, ts), RoleName: ident(t, "role"), ForceDrop: rapid.Bool().Draw(t, "force")}
		c.msg, c.src = &msgstream.DropRoleMsg{BaseMsg: bm, DropRoleRequest: r}, proto.Clone(r)
	case "OperateUserRole":
		r := &milvuspb.OperateUserRoleRequest{Base: srcBase(commonpb.MsgType_OperateUserRole, ts), Username: ident(t, "user"), RoleName: ident(t, "role"),
			Type: milvuspb.OperateUserRoleType(rapid.IntRange(0, 1).Draw(t, "urtype"))}
		c.msg, c.src = &msgstream.OperateUserRoleMsg{BaseMsg: bm, OperateUserRoleRequest: r}, proto.Clone(r)
	case "OperatePrivilege":
		r := &milvuspb.OperatePrivilegeRequest{Base: srcBase(commonpb.MsgType_OperatePrivilege, ts), Type: milvuspb.OperatePrivilegeType(rapid.IntRange(0, 1).Draw(t, "ptype")),
			Entity: &milvuspb.GrantEntity{Role: &milvuspb.RoleEntity{Name: ident(t, "role")}, Object: &milvuspb.ObjectEntity{Name: rapid.SampledFrom([]string{"Collection", "Global", "User"}).Draw(t, "obj")},
				ObjectName: ident(t, "objname"), DbName: db, Grantor: &milvuspb.GrantorEntity{User: &milvuspb.UserEntity{Name: ident(t, "grantor")}, Privilege: &milvuspb.PrivilegeEntity{Name: ident(t, "priv")}}}}
		c.msg, c.src = &msgstream.OperatePrivilegeMsg{BaseMsg: bm, OperatePrivilegeRequest: r}, proto.Clone(r)
	default:
		panic("unknown kind " + kind)
	}
	// a source request may already carry a replication stamp (chained replication, or an empty one); the stamp sent
	// downstream must still be the one of this hop
	if b, ok := c.msg.(interface{ GetBase() *commonpb.MsgBase }); ok && b.GetBase() != nil {
		switch rapid.IntRange(0, 7).Draw(t, "sourceReplicateInfo") {
		case 5:
			b.GetBase().ReplicateInfo = &commonpb.ReplicateInfo{}
			c.preStamped = true
		case 6:
			b.GetBase().ReplicateInfo = &commonpb.ReplicateInfo{IsReplicate: true, ReplicateID: "upstream-rid", MsgTimestamp: 7}
			c.preStamped = true
		}
	}
	return c
}

func canonOrName(db string) string {
	// database-level messages always carry an explicit name
	if db == "" {
		return "default"
	}
	return db
}

func genParts(t *rapid.T) []string {
	n := rapid.IntRange(1, 3).Draw(t, "nparts")
	all := []string{"p1", "p2", "p3"}
	return append([]string(nil), all[:n]...)
}

func genPwd(t *rapid.T, label string) string {
	if rapid.IntRange(0, 4).Draw(t, label+"Bad") == 0 {
		return "%%not-base64%%"
	}
	return base64.StdEncoding.EncodeToString([]byte(rapid.StringN(0, 8, -1).Draw(t, label)))
}

func (c *opCase) pack(extraEnd bool) *msgstream.MsgPack {
	end := []*msgpb.MsgPosition{{ChannelName: "rpc-chan", MsgID: []byte{1, 2, 3}, Timestamp: c.ts}}
	if extraEnd {
		end = append([]*msgpb.MsgPosition{{ChannelName: "rpc-chan", MsgID: []byte{9}, Timestamp: c.ts - 1}}, end...)
	}
	return &msgstream.MsgPack{BeginTs: c.ts, EndTs: c.ts, Msgs: []msgstream.TsMsg{c.msg},
		StartPositions: []*msgpb.MsgPosition{{ChannelName: "rpc-chan", MsgID: []byte{1}, Timestamp: c.ts}}, EndPositions: end}
}

func collScoped(kind string) bool {
	switch kind {
	case "Flush", "CreateIndex", "DropIndex", "AlterIndex", "LoadCollection", "ReleaseCollection", "LoadPartitions", "ReleasePartitions",
		"EvCreateCollection", "EvDropCollection", "EvCreatePartition", "EvDropPartition":
		return true
	}
	return false
}

func dbScoped(kind string) bool {
	return kind == "CreateDatabase" || kind == "DropDatabase" || kind == "AlterDatabase"
}

// ---- API events

type evCase struct {
	kind  string
	db    string
	coll  string
	part  string
	ts    uint64
	ev    *api.ReplicateAPIEvent
	info  *pb.CollectionInfo // deep copy of the source
	pinfo *pb.PartitionInfo
}

func genSchema(t *rapid.T, coll string) *schemapb.CollectionSchema {
	s := &schemapb.CollectionSchema{Name: coll, Description: rapid.StringN(0, 5, -1).Draw(t, "desc"), EnableDynamicField: rapid.Bool().Draw(t, "dynamic")}
	s.Fields = append(s.Fields, &schemapb.FieldSchema{FieldID: 0, Name: "RowID", DataType: schemapb.DataType_Int64},
		&schemapb.FieldSchema{FieldID: 1, Name: "Timestamp", DataType: schemapb.DataType_Int64})
	n := rapid.IntRange(1, 5).Draw(t, "nfields")
	for i := 0; i < n; i++ {
		f := &schemapb.FieldSchema{FieldID: int64(100 + i), Name: fmt.Sprintf("f%d_%s", i, ident(t, "fname")), IsPrimaryKey: i == 0, AutoID: i == 0 && rapid.Bool().Draw(t, "autoid")}
		if i == 0 {
			f.DataType = rapid.SampledFrom([]schemapb.DataType{schemapb.DataType_Int64, schemapb.DataType_VarChar}).Draw(t, "pktype")
		} else {
			f.DataType = rapid.SampledFrom([]schemapb.DataType{schemapb.DataType_Int64, schemapb.DataType_VarChar, schemapb.DataType_FloatVector, schemapb.DataType_Bool, schemapb.DataType_JSON, schemapb.DataType_Double}).Draw(t, "ftype")
			f.IsPartitionKey = f.DataType == schemapb.DataType_Int64 && rapid.IntRange(0, 5).Draw(t, "pkey") == 0
		}
		if f.DataType == schemapb.DataType_VarChar {
			f.TypeParams = []*commonpb.KeyValuePair{{Key: "max_length", Value: "64"}}
		}
		if f.DataType == schemapb.DataType_FloatVector {
			f.TypeParams = []*commonpb.KeyValuePair{{Key: "dim", Value: fmt.Sprint(rapid.IntRange(1, 8).Draw(t, "dim"))}}
		}
		s.Fields = append(s.Fields, f)
	}
	if s.EnableDynamicField {
		s.Fields = append(s.Fields, &schemapb.FieldSchema{FieldID: int64(100 + n), Name: "$meta", DataType: schemapb.DataType_JSON, IsDynamic: true})
	}
	return s
}

func genEvent(t *rapid.T, kind, db, coll string, ts uint64) *evCase {
	e := &evCase{kind: kind, db: db, coll: coll, ts: ts}
	info := &pb.CollectionInfo{ID: 1001, Schema: genSchema(t, coll), CreateTime: ts, ShardsNum: rapid.Int32Range(1, 4).Draw(t, "shards"),
		ConsistencyLevel: commonpb.ConsistencyLevel(rapid.IntRange(0, 4).Draw(t, "consistency")), Properties: kvs(t, "collprop")}
	e.info = proto.Clone(info).(*pb.CollectionInfo)
	ev := &api.ReplicateAPIEvent{CollectionInfo: info, ReplicateInfo: &commonpb.ReplicateInfo{IsReplicate: true, MsgTimestamp: ts},
		ReplicateParam: api.ReplicateParam{Database: db}, TaskID: "task1", MsgID: "msg1"}
	switch kind {
	case "EvCreateCollection":
		ev.EventType = api.ReplicateCreateCollection
	case "EvDropCollection":
		ev.EventType = api.ReplicateDropCollection
	case "EvCreatePartition", "EvDropPartition":
		e.part = "p_" + ident(t, "part")
		ev.PartitionInfo = &pb.PartitionInfo{PartitionID: 2002, PartitionName: e.part, CollectionId: 1001, PartitionCreatedTimestamp: ts}
		e.pinfo = proto.Clone(ev.PartitionInfo).(*pb.PartitionInfo)
		ev.EventType = api.ReplicateCreatePartition
		if kind == "EvDropPartition" {
			ev.EventType = api.ReplicateDropPartition
		}
	}
	e.ev = ev
	return e
}

// ---- writer construction

type memMeta struct{ api.ReplicateMeta }

type nopMeta struct{ removed []string }

func (n *nopMeta) UpdateTaskDropCollectionMsg(ctx context.Context, msg api.TaskDropCollectionMsg) (bool, error) {
	return false, nil
}
func (n *nopMeta) GetTaskDropCollectionMsg(ctx context.Context, taskID string, msgID string) ([]api.TaskDropCollectionMsg, error) {
	return nil, nil
}
func (n *nopMeta) UpdateTaskDropPartitionMsg(ctx context.Context, msg api.TaskDropPartitionMsg) (bool, error) {
	return false, nil
}
func (n *nopMeta) GetTaskDropPartitionMsg(ctx context.Context, taskID string, msgID string) ([]api.TaskDropPartitionMsg, error) {
	return nil, nil
}
func (n *nopMeta) RemoveTaskMsg(ctx context.Context, taskID string, msgID string) error {
	n.removed = append(n.removed, taskID+"/"+msgID)
	return nil
}

func newWriter(h *handler.Handler, replicateID string, dropped map[string]map[string]uint64, mapping map[string]string) (*writer.ChannelWriter, *nopMeta) {
	meta := &nopMeta{}
	w := writer.NewChannelWriter(h, meta, config.WriterConfig{MessageBufferSize: 4, ReplicateID: replicateID,
		Retry: config.RetrySettings{RetryTimes: 1, InitBackOff: 1, MaxBackOff: 1}}, dropped, "milvus").(*writer.ChannelWriter)
	if len(mapping) > 0 {
		w.UpdateNameMappings(mapping)
	}
	return w, meta
}

// shortCtx: the writer's retry helper sleeps a whole second after a failing attempt unless the context's deadline is nearer
// than that. The context handed to the writer therefore always reports a deadline half a second ahead but never expires:
// failing probes stay instantaneous without changing any decision, and - unlike the real 800 ms deadline used before - a test
// process that is descheduled on a loaded machine cannot turn into a spurious "not ready".
type nearDeadlineCtx struct{ context.Context }

func (nearDeadlineCtx) Deadline() (time.Time, bool) { return time.Now().Add(500 * time.Millisecond), true }
func (nearDeadlineCtx) Done() <-chan struct{}       { return nil }
func (nearDeadlineCtx) Err() error                  { return nil }

func shortCtx() (context.Context, context.CancelFunc) {
	return nearDeadlineCtx{context.Background()}, func() {}
}

func mutating(calls []*handler.Call) []*handler.Call {
	var r []*handler.Call
	for _, c := range calls {
		if !c.IsProbe() {
			r = append(r, c)
		}
	}
	return r
}

func sortedKeys(m map[string]string) []string {
	var r []string
	for k, v := range m {
		r = append(r, k+"=>"+v)
	}
	sort.Strings(r)
	return r
}
