package hwriter

// C09 (every downstream operation targets the mapped database and collection) and
// C20 (replicated DDL/RBAC requests keep identity fields and replication stamp).
// Both run the real ChannelWriter over the recording fake DataHandler; they differ in the oracle.

import (
	"fmt"
	"strings"
	"testing"

	"google.golang.org/protobuf/proto"
	"pgregory.net/rapid"

	"github.com/milvus-io/milvus-proto/go-api/v2/commonpb"
	"github.com/milvus-io/milvus-proto/go-api/v2/milvuspb"
	"github.com/milvus-io/milvus-proto/go-api/v2/msgpb"
	"github.com/milvus-io/milvus-proto/go-api/v2/schemapb"
	"github.com/milvus-io/milvus/pkg/mq/msgstream"

	"github.com/zilliztech/milvus-cdc/core/util"

	"verifharness/fakes/handler"
	"verifharness/stats"
)

type failer interface {
	Fatalf(format string, args ...any)
}

// routeOK: the call is routed to database want ("" and "default" are the same routing target).
func routeOK(got, want string) bool { return canonDB(got) == canonDB(want) }

// checkNames is the C09 oracle for one recorded call of an op/event case.
func checkNames(t failer, kind string, c *handler.Call, mapping map[string]string, srcDB string, srcColl string, what string) {
	wantDB, wantColl := refMap(mapping, srcDB, srcColl)
	switch {
	case dbScoped(kind):
		adm := refMapDBOnly(mapping, srcDB)
		if !adm[c.Name] {
			t.Fatalf("%s: %s names database %q; mapping %v applied to source database %q admits %v", what, c.Method, c.Name, sortedKeys(mapping), srcDB, keysOf(adm))
		}
	case c.Method == "DescribeDatabase":
		adm := refMapDBOnly(mapping, srcDB)
		wd, _ := refMap(mapping, srcDB, srcColl)
		adm[wd] = true
		if !adm[c.Name] {
			t.Fatalf("%s: readiness probe DescribeDatabase names %q; mapping %v applied to %q admits %v", what, c.Name, sortedKeys(mapping), srcDB, keysOf(adm))
		}
	case collScoped(kind) || c.IsProbe():
		if !routeOK(c.RouteDB, wantDB) {
			t.Fatalf("%s: %s is routed to database %q but mapping %v applied to source %q.%q gives database %q", what, c.Method, c.RouteDB, sortedKeys(mapping), srcDB, srcColl, wantDB)
		}
		if canonDB(srcDB) != "default" && wantDB != "default" && canonDB(c.RouteDB) == "default" {
			t.Fatalf("%s: %s on an object of non-default database %q is executed in the default database", what, c.Method, srcDB)
		}
		if c.Method == "Flush" {
			return // collection list checked by the caller (several collections)
		}
		if c.Collection != wantColl {
			t.Fatalf("%s: %s names collection %q but mapping %v applied to source %q.%q gives %q", what, c.Method, c.Collection, sortedKeys(mapping), srcDB, srcColl, wantColl)
		}
		if c.Req != nil {
			if g, ok := c.Req.(interface{ GetDbName() string }); ok && g.GetDbName() != "" && canonDB(g.GetDbName()) != wantDB {
				t.Fatalf("%s: %s request carries db_name %q, expected %q", what, c.Method, g.GetDbName(), wantDB)
			}
		}
	}
}

func keysOf(m map[string]bool) []string {
	var r []string
	for k := range m {
		r = append(r, k)
	}
	return r
}

func stampOK(b *commonpb.MsgBase, ts uint64) bool {
	return b != nil && b.ReplicateInfo != nil && b.ReplicateInfo.IsReplicate && b.ReplicateInfo.MsgTimestamp == ts
}

func withoutBase(m proto.Message) proto.Message {
	c := proto.Clone(m)
	r := c.ProtoReflect()
	if fd := r.Descriptor().Fields().ByName("base"); fd != nil {
		r.Clear(fd)
	}
	return c
}

func withoutNames(m proto.Message, scoped bool) proto.Message {
	if !scoped {
		return m
	}
	r := m.ProtoReflect()
	for _, n := range []string{"db_name", "collection_name"} {
		if fd := r.Descriptor().Fields().ByName(protoName(n)); fd != nil {
			r.Clear(fd)
		}
	}
	return m
}

func strEq(a, b []string) bool {
	if len(a) != len(b) {
		return false
	}
	for i := range a {
		if a[i] != b[i] {
			return false
		}
	}
	return true
}

// checkIdentity is the C20 oracle for the single mutating call produced by an op case.
func checkIdentity(t failer, oc *opCase, c *handler.Call, mapping map[string]string, liveParts []string, liveColls []string, what string) {
	if c.Method != oc.method {
		t.Fatalf("%s: op %s produced a %s request", what, oc.kind, c.Method)
	}
	if !stampOK(c.Base, oc.ts) {
		t.Fatalf("%s: %s request is not stamped as replication of source time %d: base=%v", what, c.Method, oc.ts, c.Base)
	}
	wantDB, wantColl := refMap(mapping, oc.db, oc.coll)
	switch oc.kind {
	case "CreateDatabase", "DropDatabase":
		// name checked by C09
	case "Flush":
		got := c.Req.(*milvuspb.FlushRequest).GetCollectionNames()
		var want []string
		for _, s := range liveColls {
			_, mc := refMap(mapping, oc.db, s)
			want = append(want, mc)
		}
		if !strEq(got, want) {
			t.Fatalf("%s: Flush names collections %v, source names %v (live: %v) map to %v", what, got, oc.colls, liveColls, want)
		}
	case "DropIndex":
		src := oc.src.(*milvuspb.DropIndexRequest)
		got := c.Req.(*milvuspb.DropIndexRequest)
		if got.GetIndexName() != src.GetIndexName() || got.GetFieldName() != src.GetFieldName() {
			t.Fatalf("%s: DropIndex names index %q field %q, source names index %q field %q", what, got.GetIndexName(), got.GetFieldName(), src.GetIndexName(), src.GetFieldName())
		}
	case "ReleaseCollection":
		// collection name checked by C09
	case "LoadPartitions":
		src := oc.src.(*milvuspb.LoadPartitionsRequest)
		got := c.Req.(*milvuspb.LoadPartitionsRequest)
		if !strEq(got.GetPartitionNames(), liveParts) {
			t.Fatalf("%s: LoadPartitions names partitions %v, source %v minus dropped gives %v", what, got.GetPartitionNames(), src.GetPartitionNames(), liveParts)
		}
		if got.GetReplicaNumber() != src.GetReplicaNumber() {
			t.Fatalf("%s: LoadPartitions replica number %d, source %d", what, got.GetReplicaNumber(), src.GetReplicaNumber())
		}
	case "ReleasePartitions":
		src := oc.src.(*milvuspb.ReleasePartitionsRequest)
		got := c.Req.(*milvuspb.ReleasePartitionsRequest)
		if !strEq(got.GetPartitionNames(), liveParts) {
			t.Fatalf("%s: ReleasePartitions names partitions %v, source %v minus dropped gives %v", what, got.GetPartitionNames(), src.GetPartitionNames(), liveParts)
		}
	default:
		// forwarded requests: everything but base and the (mapped) names must equal the source
		// database / collection names are C09's business: blank them on both sides
		want := withoutNames(withoutBase(oc.src), collScoped(oc.kind))
		got := withoutNames(withoutBase(c.Req), collScoped(oc.kind))
		_, _ = wantDB, wantColl
		if oc.kind == "AlterDatabase" {
			// database name is C09's business; compare the rest
			got.(*milvuspb.AlterDatabaseRequest).DbName = ""
			want.(*milvuspb.AlterDatabaseRequest).DbName = ""
		}
		if !proto.Equal(got, want) {
			t.Fatalf("%s: %s request differs from the source operation:\n got  %v\n want %v", what, c.Method, got, want)
		}
	}
}

type opOutcome struct {
	calls []*handler.Call
	err   error
}

func runOp(h *handler.Handler, w interface {
	HandleOpMessagePack(ctx contextT, p *msgstream.MsgPack) ([]byte, error)
}, p *msgstream.MsgPack) opOutcome {
	h.Reset()
	ctx, cancel := shortCtx()
	defer cancel()
	_, err := w.HandleOpMessagePack(ctx, p)
	return opOutcome{h.Calls(), err}
}

func genSrcDB(t *rapid.T) string {
	return rapid.SampledFrom([]string{"", "default", "db1"}).Draw(t, "srcDB")
}

func propOps(t *rapid.T, prop string) {
	sc := stats.New(prop)
	srcDB := genSrcDB(t)
	coll := "c1"
	mapping, shape := genMapping(t, srcDB, []string{"c1", "c2"})
	if rapid.Bool().Draw(t, "otherColl") {
		coll = "c2"
	}
	isEvent := rapid.IntRange(0, 5).Draw(t, "isEvent") == 0
	ts := rapid.Uint64Range(1000, 1<<40).Draw(t, "ts")
	replicateID := rapid.SampledFrom([]string{"", "rid-1"}).Draw(t, "replicateID")
	failDownstream := rapid.IntRange(0, 5).Draw(t, "failDownstream") == 0

	dropped := map[string]map[string]uint64{}
	h := handler.New()
	h.Behave = func(c *handler.Call) error {
		if failDownstream && !c.IsProbe() {
			return fmt.Errorf("downstream rejected %s", c.Method)
		}
		return nil
	}
	what := fmt.Sprintf("[srcDB=%q coll=%q mapping=%v]", srcDB, coll, sortedKeys(mapping))

	if isEvent {
		kind := rapid.SampledFrom(eventKinds).Draw(t, "eventKind")
		ec := genEvent(t, kind, srcDB, coll, ts)
		w, meta := newWriter(h, replicateID, dropped, mapping)
		ctx, cancel := shortCtx()
		err := w.HandleReplicateAPIEvent(ctx, ec.ev)
		cancel()
		calls := h.Calls()
		mut := mutating(calls)
		if len(mut) != 1 {
			t.Fatalf("%s event %s produced %d downstream requests %v", what, kind, len(mut), methods(mut))
		}
		if failDownstream != (err != nil) {
			t.Fatalf("%s event %s: downstream failed=%v but writer returned %v", what, kind, failDownstream, err)
		}
		c := mut[0]
		wantMethod := strings.TrimPrefix(kind, "Ev")
		if c.Method != wantMethod {
			t.Fatalf("%s event %s produced a %s request", what, kind, c.Method)
		}
		if prop == "C09" {
			for _, pc := range calls {
				checkNames(t, kind, pc, mapping, srcDB, coll, what)
			}
		} else {
			if !stampOK(c.Base, ts) {
				t.Fatalf("%s event %s: request not stamped with the event's time %d: %v", what, kind, ts, c.Base)
			}
			switch kind {
			case "EvCreateCollection":
				checkCreateCollection(t, ec, c, replicateID, what)
			case "EvCreatePartition", "EvDropPartition":
				if c.Partition != ec.part {
					t.Fatalf("%s event %s names partition %q, source %q", what, kind, c.Partition, ec.part)
				}
			}
			if (kind == "EvDropCollection" || kind == "EvDropPartition") && err == nil {
				if len(meta.removed) != 1 || meta.removed[0] != "task1/msg1" {
					t.Fatalf("%s event %s: pending drop message not removed exactly once: %v", what, kind, meta.removed)
				}
			}
		}
		sc.Class("event:" + kind)
		sc.Class("mapping:" + string(shape))
		wd, _ := refMap(mapping, srcDB, coll)
		sc.ClassIf(failDownstream, "downstream-failure")
		if prop == "C09" {
			sc.NonTrivial(wd != canonDB(srcDB))
		} else {
			sc.NonTrivial(kind == "EvCreateCollection" || kind == "EvCreatePartition" || kind == "EvDropPartition")
		}
		sc.Fingerprint(fmt.Sprint(kind, srcDB, coll, sortedKeys(mapping), ts, replicateID, failDownstream, ec.info))
		sc.Sample(map[string]any{"event": kind, "srcDB": srcDB, "collection": coll, "mapping": sortedKeys(mapping), "ts": ts, "downstream_calls": methods(calls), "routed_db": c.RouteDB, "downstream_collection": c.Collection})
		sc.Done()
		return
	}

	kind := rapid.SampledFrom(opKinds).Draw(t, "opKind")
	oc := genOp(t, kind, srcDB, coll, ts)
	// dropped members of lists (C20): recorded in the writer's table as dropped at/after the op time
	liveParts := append([]string(nil), oc.parts...)
	liveColls := append([]string(nil), oc.colls...)
	if len(oc.parts) > 0 && rapid.Bool().Draw(t, "someDroppedPartition") {
		k := rapid.IntRange(0, len(oc.parts)-1).Draw(t, "droppedPartition")
		_, dk := util.GetPartitionInfoKeys(oc.parts[k], coll, srcDB)
		dropped[util.DroppedPartitionKey] = map[string]uint64{dk: ts + uint64(rapid.IntRange(0, 5).Draw(t, "dropDelta"))}
		liveParts = append(append([]string(nil), oc.parts[:k]...), oc.parts[k+1:]...)
	}
	if len(oc.colls) > 1 && rapid.Bool().Draw(t, "someDroppedCollection") {
		_, dk := util.GetCollectionInfoKeys(oc.colls[1], srcDB)
		dropped[util.DroppedCollectionKey] = map[string]uint64{dk: ts + 1}
		liveColls = liveColls[:1]
	}
	// a listed partition that is neither recorded (created / dropped) nor present downstream - its create event has not been
	// replayed yet: it is not "already dropped", so it must not be removed from the list; the op is not ready
	unknownPart := ""
	if (kind == "LoadPartitions" || kind == "ReleasePartitions") && len(liveParts) > 0 && !failDownstream && rapid.IntRange(0, 7).Draw(t, "unknownPartition") == 0 {
		unknownPart = liveParts[rapid.IntRange(0, len(liveParts)-1).Draw(t, "whichUnknown")]
		h.Behave = func(c *handler.Call) error {
			if c.Method == "DescribePartition" && c.Partition == unknownPart {
				return fmt.Errorf("partition not found[partition=%s]", unknownPart)
			}
			return nil
		}
	}
	w, _ := newWriter(h, replicateID, dropped, mapping)
	out := runOp(h, w, oc.pack(rapid.Bool().Draw(t, "twoEndPositions")))
	mut := mutating(out.calls)
	if unknownPart != "" {
		if len(mut) != 0 || out.err == nil {
			t.Fatalf("%s op %s lists partition %q which is neither dropped nor present downstream yet: it must fail as not ready without a request, got requests %v (partitions %v) err %v",
				what, kind, unknownPart, methods(mut), partsOf(mut), out.err)
		}
		sc.Class("op:" + kind)
		sc.Class("unknown-list-member(not ready)")
		sc.NonTrivial(true)
		sc.Fingerprint(fmt.Sprint("unknownpart", kind, srcDB, coll, sortedKeys(mapping), ts, oc.parts, unknownPart, dropped))
		sc.Done()
		return
	}
	expectCall := true
	if kind == "Flush" {
		// a flush whose live collections map into different target databases cannot be one request: the writer rejects it
		dbs := map[string]bool{}
		for _, s := range liveColls {
			d, _ := refMap(mapping, srcDB, s)
			dbs[d] = true
		}
		if len(dbs) > 1 {
			if len(mut) != 0 || out.err == nil {
				t.Fatalf("%s flush over collections mapped into different databases must be rejected without any request: calls %v err %v", what, methods(mut), out.err)
			}
			sc.Class("flush-multi-db-rejected")
			sc.Fingerprint(fmt.Sprint("flushmulti", srcDB, sortedKeys(mapping), ts))
			sc.Done()
			return
		}
	}
	if (kind == "LoadPartitions" || kind == "ReleasePartitions") && len(liveParts) == 0 {
		expectCall = false
	}
	if kind == "CreateUser" || kind == "UpdateUser" {
		// the real handler rejects undecodable passwords; the fake records the call regardless
	}
	if expectCall && len(mut) != 1 {
		t.Fatalf("%s op %s produced %d downstream requests %v", what, kind, len(mut), methods(mut))
	}
	if !expectCall {
		if len(mut) != 0 || out.err != nil {
			t.Fatalf("%s op %s with every listed partition dropped must be skipped: calls %v err %v", what, kind, methods(mut), out.err)
		}
	} else {
		if failDownstream != (out.err != nil) {
			t.Fatalf("%s op %s: downstream failed=%v but writer returned %v", what, kind, failDownstream, out.err)
		}
		if prop == "C09" {
			for _, pc := range out.calls {
				pcColl := coll
				if kind == "Flush" && pc.IsProbe() {
					// a flush probes each of its collections: attribute the probe to the source collection it maps from
					for _, s := range oc.colls {
						if _, mc := refMap(mapping, srcDB, s); mc == pc.Collection {
							pcColl = s
						}
					}
				}
				checkNames(t, kind, pc, mapping, srcDB, pcColl, what)
			}
			if kind == "Flush" {
				checkIdentityFlushNames(t, oc, mut[0], mapping, liveColls, what)
			}
		} else {
			checkIdentity(t, oc, mut[0], mapping, liveParts, liveColls, what)
		}
	}
	sc.Class("op:" + kind)
	sc.Class("mapping:" + string(shape))
	sc.ClassIf(failDownstream, "downstream-failure")
	sc.ClassIf(len(liveParts) != len(oc.parts) || len(liveColls) != len(oc.colls), "dropped-list-member")
	wd, _ := refMap(mapping, srcDB, coll)
	if prop == "C09" {
		sc.NonTrivial(wd != canonDB(srcDB) && collScoped(kind))
	} else {
		sc.NonTrivial(len(oc.parts) > 1 || len(oc.colls) > 1 || kind == "CreateIndex" || kind == "AlterIndex" || kind == "OperatePrivilege" || kind == "LoadCollection" || kind == "AlterDatabase")
	}
	sc.Fingerprint(fmt.Sprint(kind, srcDB, coll, sortedKeys(mapping), ts, replicateID, failDownstream, oc.src, dropped))
	smp := map[string]any{"op": kind, "srcDB": srcDB, "collection": coll, "mapping": sortedKeys(mapping), "ts": ts, "downstream_calls": methods(out.calls)}
	if len(mut) == 1 {
		smp["routed_db"], smp["downstream_collection"] = mut[0].RouteDB, mut[0].Collection
	}
	sc.Sample(smp)
	sc.Done()
}

func checkIdentityFlushNames(t failer, oc *opCase, c *handler.Call, mapping map[string]string, liveColls []string, what string) {
	got := c.Req.(*milvuspb.FlushRequest).GetCollectionNames()
	var want []string
	for _, s := range liveColls {
		_, mc := refMap(mapping, oc.db, s)
		want = append(want, mc)
	}
	if !strEq(got, want) {
		t.Fatalf("%s: Flush names collections %v, source names %v map to %v", what, got, liveColls, want)
	}
}

func checkCreateCollection(t failer, ec *evCase, c *handler.Call, replicateID string, what string) {
	src := ec.info
	if c.ShardsNum != src.ShardsNum {
		t.Fatalf("%s: CreateCollection shard number %d, source %d", what, c.ShardsNum, src.ShardsNum)
	}
	if c.Consistency != src.ConsistencyLevel {
		t.Fatalf("%s: CreateCollection consistency level %v, source %v", what, c.Consistency, src.ConsistencyLevel)
	}
	wantProps := map[string]string{}
	for _, kv := range src.Properties {
		wantProps[kv.Key] = kv.Value
	}
	if replicateID != "" {
		wantProps["replicate.id"] = replicateID
	}
	gotProps := map[string]string{}
	for _, kv := range c.Properties {
		gotProps[kv.Key] = kv.Value
	}
	if fmt.Sprint(gotProps) != fmt.Sprint(wantProps) {
		t.Fatalf("%s: CreateCollection properties %v, source (+replicate id) %v", what, gotProps, wantProps)
	}
	// user-defined schema: every source field with id >= 100 (system fields RowID/Timestamp are re-added by the target)
	got := c.Schema.ProtoMessage()
	var wantFields, gotFields []*schemapb.FieldSchema
	for _, f := range src.Schema.Fields {
		if f.FieldID >= 100 {
			wantFields = append(wantFields, f)
		}
	}
	for _, f := range got.Fields {
		if f.Name != "RowID" && f.Name != "Timestamp" {
			gotFields = append(gotFields, f)
		}
	}
	if len(gotFields) != len(wantFields) {
		t.Fatalf("%s: CreateCollection schema has %d user fields, source %d", what, len(gotFields), len(wantFields))
	}
	for i := range wantFields {
		g, w := gotFields[i], wantFields[i]
		if g.Name != w.Name || g.DataType != w.DataType || g.IsPrimaryKey != w.IsPrimaryKey || g.AutoID != w.AutoID || g.IsDynamic != w.IsDynamic ||
			g.IsPartitionKey != w.IsPartitionKey || fmt.Sprint(kvMap(g.TypeParams)) != fmt.Sprint(kvMap(w.TypeParams)) {
			t.Fatalf("%s: CreateCollection field %d differs: got %v, source %v", what, i, g, w)
		}
	}
	if got.EnableDynamicField != src.Schema.EnableDynamicField || got.Description != src.Schema.Description {
		t.Fatalf("%s: CreateCollection schema flags differ: dynamic %v/%v description %q/%q", what, got.EnableDynamicField, src.Schema.EnableDynamicField, got.Description, src.Schema.Description)
	}
}

func kvMap(kvs []*commonpb.KeyValuePair) map[string]string {
	m := map[string]string{}
	for _, kv := range kvs {
		m[kv.Key] = kv.Value
	}
	return m
}

func methods(cs []*handler.Call) []string {
	var r []string
	for _, c := range cs {
		r = append(r, c.Method)
	}
	return r
}

var _ = msgpb.MsgPosition{}

func TestC09(t *testing.T) { rapid.Check(t, func(t *rapid.T) { propOps(t, "C09") }) }
func TestC20(t *testing.T) { rapid.Check(t, func(t *rapid.T) { propOps(t, "C20") }) }

// partsOf lists the partition names of load / release partition requests (for messages).
func partsOf(calls []*handler.Call) [][]string {
	var out [][]string
	for _, c := range calls {
		switch r := c.Req.(type) {
		case *milvuspb.LoadPartitionsRequest:
			out = append(out, r.GetPartitionNames())
		case *milvuspb.ReleasePartitionsRequest:
			out = append(out, r.GetPartitionNames())
		}
	}
	return out
}
