package hwriter

import (
	"fmt"
	"testing"

	"pgregory.net/rapid"

	"github.com/milvus-io/milvus-proto/go-api/v2/milvuspb"
	"github.com/milvus-io/milvus/pkg/mq/msgstream"

	"verifharness/fakes/handler"
	"verifharness/stats"
)

// C20, second sentence: a pack with unsupported or ambiguous content is rejected instead of being partially applied.
func propC20Malformed(t *rapid.T) {
	sc := stats.New("C20")
	srcDB := genSrcDB(t)
	ts := rapid.Uint64Range(1000, 1<<40).Draw(t, "ts")
	shape := rapid.SampledFrom([]string{"empty", "two", "three", "unsupported-dml", "unsupported-tick", "two-with-unsupported"}).Draw(t, "malformed")
	var msgs []msgstream.TsMsg
	op := func() msgstream.TsMsg {
		return genOp(t, rapid.SampledFrom(opKinds).Draw(t, "opKind"), srcDB, "c1", ts).msg
	}
	switch shape {
	case "empty":
	case "two":
		msgs = []msgstream.TsMsg{op(), op()}
	case "three":
		msgs = []msgstream.TsMsg{op(), op(), op()}
	case "unsupported-dml":
		msgs = []msgstream.TsMsg{genDML(t, rapid.SampledFrom([]string{"insert", "delete", "dropCollection", "dropPartition", "import"}).Draw(t, "dml"), srcDB, "c1", ts, "v").msg}
	case "unsupported-tick":
		msgs = []msgstream.TsMsg{genDML(t, "tick", srcDB, "c1", ts, "v").msg}
	case "two-with-unsupported":
		msgs = []msgstream.TsMsg{op(), genDML(t, "tick", srcDB, "c1", ts, "v").msg}
	}
	oc := &opCase{ts: ts, msg: nil}
	p := oc.pack(false)
	p.Msgs = msgs
	h := handler.New()
	w, _ := newWriter(h, "", nil, nil)
	out := runOp(h, w, p)
	if out.err == nil {
		t.Fatalf("malformed pack (%s, %d messages) accepted", shape, len(msgs))
	}
	if mut := mutating(out.calls); len(mut) != 0 {
		t.Fatalf("malformed pack (%s) rejected with %v but partially applied: %v", shape, out.err, methods(mut))
	}
	sc.Class("malformed:" + shape)
	sc.NonTrivial(len(msgs) >= 2)
	var ks []string
	for _, m := range msgs {
		ks = append(ks, m.Type().String())
	}
	sc.Fingerprint(fmt.Sprint("malformed", shape, ks, ts, srcDB))
	sc.Sample(map[string]any{"malformed_pack": shape, "messages": ks, "result": out.err.Error()})
	sc.Done()
}

func TestC20_Malformed(t *testing.T) { rapid.Check(t, propC20Malformed) }

// TestC20_Replay: fixed regressions (shrunk seeded mutants), no generator.
func TestC20_Replay(t *testing.T) {
	h := handler.New()
	w, _ := newWriter(h, "", nil, nil)
	oc := genOpFixed(&c08Item{kind: "DropIndex", db: "default", coll: "c1", ts: 77})
	oc.msg.(*msgstream.DropIndexMsg).IndexName, oc.msg.(*msgstream.DropIndexMsg).FieldName = "idx_a", "field_b"
	out := runOp(h, w, oc.pack(true))
	mut := mutating(out.calls)
	if out.err != nil || len(mut) != 1 {
		t.Fatalf("VERIF-VIOLATION DropIndex: calls %v err %v", methods(mut), out.err)
	}
	r := mut[0].Req.(*milvuspb.DropIndexRequest)
	if r.IndexName != "idx_a" || r.FieldName != "field_b" || !stampOK(mut[0].Base, 77) {
		t.Fatalf("VERIF-VIOLATION DropIndex request %v base %v", r, mut[0].Base)
	}
	oc = genOpFixed(&c08Item{kind: "LoadPartitions", db: "default", coll: "c1", part: "p1", ts: 78})
	oc.msg.(*msgstream.LoadPartitionsMsg).ReplicaNumber = 3
	out = runOp(h, w, oc.pack(false))
	mut = mutating(out.calls)
	if out.err != nil || len(mut) != 1 || mut[0].Req.(*milvuspb.LoadPartitionsRequest).ReplicaNumber != 3 {
		t.Fatalf("VERIF-VIOLATION LoadPartitions: calls %v err %v", mut, out.err)
	}
}
