package hwriter

// C07, last clause: "a downstream error is returned to the caller rather than swallowed" - also when the caller's context ends
// while the downstream call is still in flight (the call then fails like a cancelled gRPC call). The writer must hand that
// failure back and must not return a checkpoint for a pack that was never accepted.

import (
	"context"
	"testing"
	"time"

	"pgregory.net/rapid"

	"verifharness/fakes/handler"
	"verifharness/stats"
)

func TestC07_InFlightCancel(t *testing.T) {
	rapid.Check(t, func(t *rapid.T) {
		sc := stats.New("C07")
		srcDB := genSrcDB(t)
		coll := rapid.SampledFrom([]string{"c1", "c2"}).Draw(t, "coll")
		replicateID := rapid.SampledFrom([]string{"", "rid-7"}).Draw(t, "replicateID")
		p := genC07Pack(t, 0, srcDB, coll)
		entered := make(chan struct{}, 1)
		h := handler.New()
		h.Behave = func(c *handler.Call) error {
			if c.Method != "ReplicateMessage" {
				return nil
			}
			entered <- struct{}{}
			<-c.Ctx.Done() // in flight until the context ends, then it fails like a cancelled call
			return c.Ctx.Err()
		}
		w, _ := newWriter(h, replicateID, nil, nil)
		ctx, cancel := context.WithCancel(context.Background())
		byDeadline := rapid.Bool().Draw(t, "deadlineInsteadOfCancel")
		if byDeadline {
			cancel()
			ctx, cancel = context.WithTimeout(context.Background(), 30*time.Millisecond)
		}
		defer cancel()
		go func() {
			select {
			case <-entered:
				if !byDeadline {
					cancel()
				}
			case <-time.After(10 * time.Second):
			}
		}()
		src, _, err := w.HandleReplicateMessage(ctx, p.channel, p.pack)
		if err == nil {
			t.Fatalf("the downstream call failed (context ended while it was in flight) but the writer returned no error and the checkpoint %v", src)
		}
		if src != nil {
			t.Fatalf("a failed call still returned a checkpoint %v (err %v)", src, err)
		}
		sc.Class("context-ends-while-the-call-is-in-flight")
		sc.NonTrivial(true)
		sc.Fingerprint(map[string]any{"db": srcDB, "coll": coll, "rid": replicateID, "deadline": byDeadline, "msgs": len(p.msgs)})
		sc.Done()
	})
}
