package hwriter

// C09 over the life of a shared writer: the writer (and its mapping table) of a downstream is shared by all tasks of that
// downstream, and the table grows whenever a task starts (UpdateNameMappings). Operations replicated before and after such an
// update must each be addressed by the table as it is at that moment: a name that was resolved earlier (also to "unchanged")
// must follow an entry registered later.

import (
	"fmt"
	"testing"

	"pgregory.net/rapid"

	"verifharness/fakes/handler"
	"verifharness/stats"
)

func propC09MappingUpdate(t *rapid.T) {
	sc := stats.New("C09")
	srcDB := genSrcDB(t)
	m1, shape1 := genMapping(t, srcDB, []string{"c1", "c2"})
	h := handler.New()
	w, _ := newWriter(h, "", map[string]map[string]uint64{}, m1)
	ts := rapid.Uint64Range(1000, 1<<40).Draw(t, "ts")
	kinds := []string{"CreateIndex", "DropIndex", "AlterIndex", "LoadCollection", "ReleaseCollection"}
	run := func(mapping map[string]string, coll string, ts uint64, step string) {
		kind := rapid.SampledFrom(kinds).Draw(t, "op")
		oc := genOp(t, kind, srcDB, coll, ts)
		out := runOp(h, w, oc.pack(false))
		what := fmt.Sprintf("[%s srcDB=%q coll=%q table=%v]", step, srcDB, coll, sortedKeys(mapping))
		if mut := mutating(out.calls); len(mut) != 1 || out.err != nil {
			t.Fatalf("%s op %s produced requests %v err %v", what, kind, methods(mut), out.err)
		}
		for _, pc := range out.calls {
			checkNames(t, kind, pc, mapping, srcDB, "c1", what)
		}
	}
	// before the update (twice: the second use may come from a memo)
	run(m1, "c1", ts, "before the update")
	run(m1, "c1", ts+1, "before the update")
	// a task that starts later registers more entries
	m2, shape2 := genMapping(t, srcDB, []string{"c1", "c2"})
	merged := map[string]string{}
	for k, v := range m1 {
		merged[k] = v
	}
	changed := false
	for k, v := range m2 {
		nv := v + "2" // the later task maps to its own targets
		if merged[k] != nv {
			changed = true
		}
		merged[k] = nv
		m2[k] = nv
	}
	w.UpdateNameMappings(m2)
	run(merged, "c1", ts+2, "after the update")
	run(merged, "c1", ts+3, "after the update")
	d1, c1 := refMap(m1, srcDB, "c1")
	d2, c2 := refMap(merged, srcDB, "c1")
	sc.Class("table:" + string(shape1) + "->+" + string(shape2))
	sc.ClassIf(d1 != d2 || c1 != c2, "update-changes-the-target-of-a-name-already-used")
	sc.NonTrivial(changed && (d1 != d2 || c1 != c2))
	sc.Fingerprint(fmt.Sprint("upd", srcDB, sortedKeys(m1), sortedKeys(m2), ts))
	sc.Sample(map[string]any{"srcDB": srcDB, "table_before": sortedKeys(m1), "entries_added": sortedKeys(m2)})
	sc.Done()
}

func TestC09_MappingUpdate(t *testing.T) { rapid.Check(t, propC09MappingUpdate) }
