package hwriter

// C09, clause "bookkeeping keyed by source names is unaffected by the mapping": a replicated drop of a collection at source time T
// is remembered under the SOURCE names. An older operation (time <= T) on the same source collection must be skipped, and an
// operation on a different source collection that merely is called like the MAPPED name must not be.

import (
	"fmt"
	"testing"

	"pgregory.net/rapid"

	"verifharness/fakes/handler"
	"verifharness/stats"
)

func propC09Bookkeeping(t *rapid.T) {
	sc := stats.New("C09")
	srcDB := genSrcDB(t)
	mapping, shape := genMapping(t, srcDB, []string{"c1", "c2"})
	dropTs := rapid.Uint64Range(2000, 1<<40).Draw(t, "dropTs")
	h := handler.New()
	w, _ := newWriter(h, "", map[string]map[string]uint64{}, mapping)
	what := fmt.Sprintf("[srcDB=%q mapping=%v dropTs=%d]", srcDB, sortedKeys(mapping), dropTs)

	ec := genEvent(t, "EvDropCollection", srcDB, "c1", dropTs)
	ctx, cancel := shortCtx()
	err := w.HandleReplicateAPIEvent(ctx, ec.ev)
	cancel()
	if err != nil {
		t.Fatalf("%s drop-collection event failed: %v", what, err)
	}

	// (1) an older operation on the dropped source collection is skipped
	kind := rapid.SampledFrom([]string{"CreateIndex", "DropIndex", "AlterIndex", "LoadCollection", "ReleaseCollection"}).Draw(t, "olderOp")
	oc := genOp(t, kind, srcDB, "c1", dropTs-uint64(rapid.IntRange(0, 1000).Draw(t, "age")))
	out := runOp(h, w, oc.pack(false))
	if mut := mutating(out.calls); len(mut) != 0 || out.err != nil {
		t.Fatalf("%s %s on the source collection %q.c1 with a time not after its replicated drop must be skipped, got requests %v err %v (the drop is not remembered under the source names)",
			what, kind, srcDB, methods(mut), out.err)
	}
	// (2) an operation on another source collection that is called like the mapped name is not skipped
	wd, wc := refMap(mapping, srcDB, "c1")
	otherDB := wd
	if wd != canonDB(srcDB) || wc != "c1" {
		kind2 := rapid.SampledFrom([]string{"CreateIndex", "LoadCollection"}).Draw(t, "otherOp")
		oc2 := genOp(t, kind2, otherDB, wc, dropTs-1)
		out2 := runOp(h, w, oc2.pack(false))
		if mut := mutating(out2.calls); len(mut) != 1 || out2.err != nil {
			t.Fatalf("%s %s on the unrelated source collection %q.%q (named like the mapped target of the dropped one) must be executed, got requests %v err %v",
				what, kind2, otherDB, wc, methods(mut), out2.err)
		}
		sc.Class("bookkeeping:unrelated-namesake-executed")
	}
	sc.Class("bookkeeping:older-op-skipped")
	sc.Class("mapping:" + string(shape))
	sc.NonTrivial(wd != canonDB(srcDB))
	sc.Fingerprint(fmt.Sprint("bk", srcDB, sortedKeys(mapping), dropTs, kind))
	sc.Done()
}

func TestC09_Bookkeeping(t *testing.T) { rapid.Check(t, propC09Bookkeeping) }
