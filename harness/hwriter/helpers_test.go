package hwriter

import (
	"context"

	"google.golang.org/protobuf/reflect/protoreflect"
)

type contextT = context.Context

func protoString(s string) protoreflect.Value { return protoreflect.ValueOfString(s) }

func protoName(s string) protoreflect.Name { return protoreflect.Name(s) }
