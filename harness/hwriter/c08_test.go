package hwriter

// C08 — DDL applies to the incarnation it was issued for, else is skipped.
//
// Part 1 (TestC08_Table, exhaustive): the pure decision function over all order relations of
// (op time, create time, drop time) x presence x magnitudes against a table re-derived from the statement.
// Part 2 (TestC08, stateful): generated source timelines (create / operate / drop / re-create of collections
// and partitions in two databases). Collection/partition creates and drops reach the writer as API events,
// everything else through the op channel; both streams keep their own order but are merged arbitrarily.
// Then a restart: a new writer seeded with the drop-horizon table the source catalog yields at that moment
// receives a suffix of the op stream again. The fake downstream tags every object with its incarnation.

import (
	"fmt"
	"testing"

	"pgregory.net/rapid"

	"github.com/milvus-io/milvus-proto/go-api/v2/commonpb"
	"github.com/milvus-io/milvus-proto/go-api/v2/milvuspb"
	"github.com/milvus-io/milvus-proto/go-api/v2/schemapb"
	"github.com/milvus-io/milvus/pkg/mq/msgstream"

	"github.com/zilliztech/milvus-cdc/core/api"
	"github.com/zilliztech/milvus-cdc/core/pb"
	"github.com/zilliztech/milvus-cdc/core/util"
	"github.com/zilliztech/milvus-cdc/core/writer"

	"verifharness/fakes/handler"
	"verifharness/stats"
)

const (
	stUnknown = 1
	stCreated = 2
	stDropped = 3
)

// refState: admissible answers per the statement.
//   - nothing recorded: unknown (probe downstream)
//   - only a drop time d: dropped if t <= d ("dropped at or after t"), else unknown (may have been re-created)
//   - only a create time c: created if c <= t (existed at t), else dropped (re-created after t)
//   - both, c > d (current incarnation is newer than the last drop): created if t >= c else dropped
//   - both, c < d (object currently dropped): dropped if t <= d else unknown
//   - both, c == d: the record cannot say which came first; either reading of the two rules above is admitted
func refState(t, c, d uint64, cok, dok bool) map[int]bool {
	one := func(s int) map[int]bool { return map[int]bool{s: true} }
	switch {
	case !cok && !dok:
		return one(stUnknown)
	case !cok:
		if t <= d {
			return one(stDropped)
		}
		return one(stUnknown)
	case !dok:
		if c <= t {
			return one(stCreated)
		}
		return one(stDropped)
	}
	newer := func() int {
		if t >= c {
			return stCreated
		}
		return stDropped
	}
	older := func() int {
		if t <= d {
			return stDropped
		}
		return stUnknown
	}
	switch {
	case c > d:
		return one(newer())
	case c < d:
		return one(older())
	}
	return map[int]bool{newer(): true, older(): true}
}

func TestC08_Table(t *testing.T) {
	vals := []uint64{0, 1, 2, 3, 4, 1 << 62, 1<<63 - 1, 1 << 63, 1<<63 + 1, ^uint64(0) - 1, ^uint64(0)}
	n := 0
	for _, mt := range vals {
		for _, ct := range vals {
			for _, dt := range vals {
				for _, cok := range []bool{false, true} {
					for _, dok := range []bool{false, true} {
						sc := stats.New("C08")
						got := writer.GetObjStateForVerif(mt, ct, dt, cok, dok)
						want := refState(mt, ct, dt, cok, dok)
						if !want[got] {
							t.Fatalf("VERIF-VIOLATION decision(op=%d create=%d(%v) drop=%d(%v)) = %d, statement admits %v (1 unknown, 2 created, 3 dropped)", mt, ct, cok, dt, dok, got, want)
						}
						n++
						sc.Class("table")
						sc.NonTrivial(cok || dok)
						sc.Fingerprint(fmt.Sprint("T", mt, ct, dt, cok, dok))
						sc.Sample(map[string]any{"mode": "decision-table", "op_time": mt, "create_time": ct, "create_known": cok, "drop_time": dt, "drop_known": dok, "decision": got})
						sc.Done()
					}
				}
			}
		}
	}
	stats.Exhaustive("C08")
	stats.Note("C08", fmt.Sprintf("decision table: %d points = all triples over %d magnitudes (incl. 0, 2^63, 2^64-1) x 4 presence combinations; covers all 13 weak orderings of three times", n, len(vals)))
}

// ---- part 2

type incKey struct{ db, coll, part string }

type c08Item struct {
	isEvent bool
	kind    string // EvCreateCollection, EvDropCollection, EvCreatePartition, EvDropPartition, CreateDatabase, DropDatabase, or an op kind
	db      string
	coll    string
	part    string
	ts      uint64
	collInc int // incarnation of the collection the item was issued for / creates
	partInc int
	dbInc   int
}

type c08Down struct {
	dbs   map[string]int    // db -> incarnation (present)
	colls map[[2]string]int // (db,coll) -> incarnation
	parts map[incKey]int
}

func (d *c08Down) has(db string) bool {
	_, ok := d.dbs[canonDB(db)]
	return ok || canonDB(db) == "default"
}

func propC08(t *rapid.T) {
	sc := stats.New("C08")
	collsU := []string{"c1", "c2"}
	// ---- source history
	type srcColl struct {
		inc   int
		live  bool
		ctime uint64
		parts map[string]int // partition -> incarnation (live)
		pinc  map[string]int
	}
	srcDBLive := map[string]bool{"default": true}
	srcDBInc := map[string]int{"default": 1}
	src := map[[2]string]*srcColl{}
	var evQ, opQ []*c08Item
	ts := uint64(1000)
	next := func() uint64 { ts += uint64(rapid.IntRange(1, 3).Draw(t, "dt")); return ts }
	droppedCollTimes := map[[2]string][]uint64{} // name -> create times of dropped incarnations (catalog keeps them visible)
	recreated, dbDropped := false, false
	steps := rapid.IntRange(3, 18).Draw(t, "historyLen")
	for i := 0; i < steps; i++ {
		db := rapid.SampledFrom([]string{"default", "default", "default", "db1"}).Draw(t, "db")
		cn := rapid.SampledFrom([]string{"c1", "c1", "c2"}).Draw(t, "coll")
		k := [2]string{db, cn}
		if !srcDBLive[db] {
			srcDBLive[db] = true
			srcDBInc[db]++
			opQ = append(opQ, &c08Item{kind: "CreateDatabase", db: db, ts: next(), dbInc: srcDBInc[db]})
			continue
		}
		c := src[k]
		if c == nil || !c.live {
			inc := 1
			if c != nil {
				inc = c.inc + 1
				recreated = true
			}
			c = &srcColl{inc: inc, live: true, ctime: next(), parts: map[string]int{}, pinc: map[string]int{}}
			if src[k] != nil {
				c.pinc = src[k].pinc
			}
			src[k] = c
			evQ = append(evQ, &c08Item{isEvent: true, kind: "EvCreateCollection", db: db, coll: cn, ts: c.ctime, collInc: inc, dbInc: srcDBInc[db]})
			continue
		}
		switch rapid.SampledFrom([]string{"op", "op", "op", "dropColl", "dropColl", "dropColl", "createPart", "dropPart", "partOp", "partOp", "dropDB"}).Draw(t, "what") {
		case "op":
			kind := rapid.SampledFrom([]string{"CreateIndex", "LoadCollection", "ReleaseCollection", "DropIndex", "AlterIndex", "Flush"}).Draw(t, "opKind")
			opQ = append(opQ, &c08Item{kind: kind, db: db, coll: cn, ts: next(), collInc: c.inc, dbInc: srcDBInc[db]})
		case "dropColl":
			c.live = false
			droppedCollTimes[k] = append(droppedCollTimes[k], c.ctime)
			evQ = append(evQ, &c08Item{isEvent: true, kind: "EvDropCollection", db: db, coll: cn, ts: next(), collInc: c.inc, dbInc: srcDBInc[db]})
		case "createPart":
			if _, ok := c.parts["p1"]; ok {
				continue
			}
			c.pinc["p1"]++
			c.parts["p1"] = c.pinc["p1"]
			evQ = append(evQ, &c08Item{isEvent: true, kind: "EvCreatePartition", db: db, coll: cn, part: "p1", ts: next(), collInc: c.inc, partInc: c.parts["p1"], dbInc: srcDBInc[db]})
		case "dropPart":
			pi, ok := c.parts["p1"]
			if !ok {
				continue
			}
			delete(c.parts, "p1")
			evQ = append(evQ, &c08Item{isEvent: true, kind: "EvDropPartition", db: db, coll: cn, part: "p1", ts: next(), collInc: c.inc, partInc: pi, dbInc: srcDBInc[db]})
		case "partOp":
			pi, ok := c.parts["p1"]
			if !ok {
				continue
			}
			kind := rapid.SampledFrom([]string{"LoadPartitions", "ReleasePartitions"}).Draw(t, "partOpKind")
			opQ = append(opQ, &c08Item{kind: kind, db: db, coll: cn, part: "p1", ts: next(), collInc: c.inc, partInc: pi, dbInc: srcDBInc[db]})
		case "dropDB":
			if db == "default" {
				continue
			}
			// a database can only be dropped when empty: drop its live collections first
			for _, cn2 := range collsU {
				k2 := [2]string{db, cn2}
				if c2 := src[k2]; c2 != nil && c2.live {
					c2.live = false
					droppedCollTimes[k2] = append(droppedCollTimes[k2], c2.ctime)
					evQ = append(evQ, &c08Item{isEvent: true, kind: "EvDropCollection", db: db, coll: cn2, ts: next(), collInc: c2.inc, dbInc: srcDBInc[db]})
				}
			}
			srcDBLive[db] = false
			dbDropped = true
			opQ = append(opQ, &c08Item{kind: "DropDatabase", db: db, ts: next(), dbInc: srcDBInc[db]})
		}
	}
	now := ts + 100

	// ---- downstream model + writer
	down := &c08Down{dbs: map[string]int{"default": 1}, colls: map[[2]string]int{}, parts: map[incKey]int{}}
	var cur *c08Item
	h := handler.New()
	h.Behave = func(c *handler.Call) error {
		db := canonDB(c.RouteDB)
		switch c.Method {
		case "DescribeDatabase":
			if !down.has(c.Name) {
				return fmt.Errorf("database not found")
			}
			return nil
		case "DescribeCollection":
			if _, ok := down.colls[[2]string{db, c.Collection}]; !ok || !down.has(db) {
				return fmt.Errorf("collection not found")
			}
			return nil
		case "DescribePartition":
			if _, ok := down.parts[incKey{db, c.Collection, c.Partition}]; !ok {
				return fmt.Errorf("partition not found")
			}
			return nil
		case "CreateDatabase":
			down.dbs[c.Name] = cur.dbInc
			return nil
		case "DropDatabase":
			for k := range down.colls {
				if k[0] == c.Name {
					return fmt.Errorf("database is not empty") // Milvus refuses; the task would pause
				}
			}
			delete(down.dbs, c.Name)
			return nil
		case "CreateCollection":
			if !down.has(db) {
				return fmt.Errorf("database not found")
			}
			if _, ok := down.colls[[2]string{db, c.Collection}]; !ok { // the real handler skips the create when the name exists
				down.colls[[2]string{db, c.Collection}] = cur.collInc
			}
			return nil
		case "DropCollection":
			if _, ok := down.colls[[2]string{db, c.Collection}]; !ok {
				return fmt.Errorf("collection not found")
			}
			delete(down.colls, [2]string{db, c.Collection})
			for k := range down.parts {
				if k.db == db && k.coll == c.Collection {
					delete(down.parts, k)
				}
			}
			return nil
		case "CreatePartition":
			if _, ok := down.colls[[2]string{db, c.Collection}]; !ok {
				return fmt.Errorf("collection not found")
			}
			if _, ok := down.parts[incKey{db, c.Collection, c.Partition}]; !ok {
				down.parts[incKey{db, c.Collection, c.Partition}] = cur.partInc
			}
			return nil
		case "DropPartition":
			if _, ok := down.parts[incKey{db, c.Collection, c.Partition}]; !ok {
				return fmt.Errorf("partition not found")
			}
			delete(down.parts, incKey{db, c.Collection, c.Partition})
			return nil
		case "Flush":
			return nil
		default:
			if _, ok := down.colls[[2]string{db, c.Collection}]; !ok {
				return fmt.Errorf("collection not found")
			}
			return nil
		}
	}

	var hist []string
	knownDropColl := map[string]bool{} // "db/coll/inc" whose drop was delivered to the current writer
	knownDropPart := map[string]bool{}
	knownDropDB := map[string]bool{}
	table := map[string]map[string]uint64{}
	horizonColl := map[[2]string]uint64{}
	mustSkips, mustExecs, staleOnNewer := 0, 0, 0
	failed := false // a failing operation pauses the task: nothing more is delivered by that incarnation of the service

	deliver := func(w api.Writer, it *c08Item, phase string) {
		cur = it
		h.Reset()
		ctx, cancel := shortCtx()
		var err error
		if it.isEvent {
			ev := genEventFixed(it)
			err = w.HandleReplicateAPIEvent(ctx, ev)
		} else {
			oc := genOpFixed(it)
			_, err = w.HandleOpMessagePack(ctx, oc.pack(false))
		}
		cancel()
		calls := h.Calls()
		mut := mutating(calls)
		ck := fmt.Sprintf("%s/%s/%d", it.db, it.coll, it.collInc)
		pk := fmt.Sprintf("%s/%s/%s/%d/%d", it.db, it.coll, it.part, it.collInc, it.partInc)
		dk := fmt.Sprintf("%s/%d", it.db, it.dbInc)
		hist = append(hist, fmt.Sprintf("%s:%s(%s.%s%s inc=%d t=%d)->calls=%v err=%v", phase, it.kind, it.db, it.coll, dotp(it.part), it.collInc, it.ts, methods(mut), err != nil))
		operatesOnExisting := !it.isEvent && it.coll != ""
		if it.kind == "EvCreatePartition" || it.kind == "EvDropPartition" {
			operatesOnExisting = true // they operate on an existing collection
		}
		if operatesOnExisting {
			mustSkip := knownDropColl[ck] || (it.part != "" && !it.isEvent && knownDropPart[pk])
			if hz, ok := horizonColl[[2]string{it.db, it.coll}]; ok && phase == "replay" && it.ts <= hz {
				mustSkip = true
			}
			if canonDB(it.db) != "default" && knownDropDB[dk] {
				mustSkip = true
			}
			curInc, exists := down.colls[[2]string{canonDB(it.db), it.coll}]
			if mustSkip {
				mustSkips++
				if err != nil || len(mut) != 0 {
					t.Fatalf("operation %s on %s.%s issued at t=%d for incarnation %d, which is known to be dropped, must be skipped successfully; got calls %v err %v\nhistory:\n%s", it.kind, it.db, it.coll, it.ts, it.collInc, methods(mut), err, joinLines(hist))
				}
			} else if exists && curInc > it.collInc {
				staleOnNewer++
				if len(mut) != 0 {
					t.Fatalf("operation %s issued at t=%d for incarnation %d of %s.%s was applied to the newer incarnation %d\nhistory:\n%s", it.kind, it.ts, it.collInc, it.db, it.coll, curInc, joinLines(hist))
				}
			} else if exists && curInc == it.collInc && (canonDB(it.db) == "default" || down.dbs[it.db] == it.dbInc) && (it.part == "" || it.isEvent || down.parts[incKey{canonDB(it.db), it.coll, it.part}] == it.partInc) && (it.kind != "EvDropPartition" || down.parts[incKey{canonDB(it.db), it.coll, it.part}] == it.partInc) {
				mustExecs++
				if err != nil || len(mut) != 1 {
					t.Fatalf("operation %s on the current incarnation %d of %s.%s (t=%d) must be executed exactly once; got calls %v err %v\nhistory:\n%s", it.kind, it.collInc, it.db, it.coll, it.ts, methods(mut), err, joinLines(hist))
				}
			}
		}
		failed = failed || err != nil
		if err == nil {
			switch it.kind {
			case "EvDropCollection":
				knownDropColl[ck] = true
			case "EvDropPartition":
				knownDropPart[pk] = true
			case "DropDatabase":
				knownDropDB[dk] = true
			}
		}
	}

	w1, _ := newWriter(h, "", nil, nil)
	ei, oi := 0, 0
	interleaved := false
	for (ei < len(evQ) || oi < len(opQ)) && !failed {
		takeEvent := oi >= len(opQ) || (ei < len(evQ) && rapid.IntRange(0, 3).Draw(t, "takeEvent") != 0)
		if takeEvent {
			if oi < len(opQ) && opQ[oi].ts < evQ[ei].ts {
				interleaved = true
			}
			deliver(w1, evQ[ei], "run")
			ei++
		} else {
			if ei < len(evQ) && evQ[ei].ts < opQ[oi].ts {
				interleaved = true
			}
			deliver(w1, opQ[oi], "run")
			oi++
		}
	}

	// ---- restart + replay of a suffix of the op stream (only when no database was dropped, see DESIGN C08 notes)
	replayed := 0
	if !dbDropped && len(opQ) > 0 && !failed {
		collT := map[string]uint64{}
		for k, cts := range droppedCollTimes {
			if len(cts) == 0 {
				continue
			}
			hz := now - 1
			if c := src[k]; c != nil && c.live {
				hz = c.ctime - 1
			}
			_, dk := util.GetCollectionInfoKeys(k[1], k[0])
			collT[dk] = hz
			horizonColl[k] = hz
		}
		table[util.DroppedCollectionKey] = collT
		knownDropColl, knownDropPart, knownDropDB = map[string]bool{}, map[string]bool{}, map[string]bool{}
		w2, _ := newWriter(h, "", table, nil)
		from := rapid.IntRange(0, len(opQ)-1).Draw(t, "replayFrom")
		for _, it := range opQ[from:] {
			if failed {
				break
			}
			if it.part != "" {
				continue // partition horizons are not part of this replay table
			}
			deliver(w2, it, "replay")
			replayed++
		}
	}
	sc.ClassIf(recreated, "re-created-name")
	sc.ClassIf(interleaved, "event/op-streams-reordered")
	sc.ClassIf(replayed > 0, "restart-replay")
	sc.ClassIf(mustSkips > 0, "must-skip")
	sc.ClassIf(staleOnNewer > 0, "stale-op-meets-newer-incarnation")
	sc.ClassIf(dbDropped, "database-dropped")
	sc.ClassIf(failed, "ended-by-not-ready-error")
	sc.Count("must_skip_checks", mustSkips)
	sc.Count("must_execute_checks", mustExecs)
	sc.NonTrivial(mustSkips > 0 && (recreated || replayed > 0))
	sc.Fingerprint(hist)
	sc.Sample(map[string]any{"mode": "timeline", "history": hist})
	sc.Done()
}

func dotp(p string) string {
	if p == "" {
		return ""
	}
	return "." + p
}

func joinLines(s []string) string {
	r := ""
	for _, x := range s {
		r += "  " + x + "\n"
	}
	return r
}

// genOpFixed / genEventFixed build deterministic messages for a timeline item (contents are irrelevant to C08).
func genOpFixed(it *c08Item) *opCase {
	oc := &opCase{kind: it.kind, db: it.db, coll: it.coll, ts: it.ts, method: it.kind}
	bm := baseMsg(it.ts)
	switch it.kind {
	case "CreateDatabase":
		oc.msg = &msgstream.CreateDatabaseMsg{BaseMsg: bm, CreateDatabaseRequest: &milvuspb.CreateDatabaseRequest{Base: srcBase(commonpb.MsgType_CreateDatabase, it.ts), DbName: it.db}}
	case "DropDatabase":
		oc.msg = &msgstream.DropDatabaseMsg{BaseMsg: bm, DropDatabaseRequest: &milvuspb.DropDatabaseRequest{Base: srcBase(commonpb.MsgType_DropDatabase, it.ts), DbName: it.db}}
	case "CreateIndex":
		oc.msg = &msgstream.CreateIndexMsg{BaseMsg: bm, CreateIndexRequest: &milvuspb.CreateIndexRequest{Base: srcBase(commonpb.MsgType_CreateIndex, it.ts), DbName: it.db, CollectionName: it.coll, FieldName: "f", IndexName: "i"}}
	case "DropIndex":
		oc.msg = &msgstream.DropIndexMsg{BaseMsg: bm, DropIndexRequest: &milvuspb.DropIndexRequest{Base: srcBase(commonpb.MsgType_DropIndex, it.ts), DbName: it.db, CollectionName: it.coll, FieldName: "f", IndexName: "i"}}
	case "AlterIndex":
		oc.msg = &msgstream.AlterIndexMsg{BaseMsg: bm, AlterIndexRequest: &milvuspb.AlterIndexRequest{Base: srcBase(commonpb.MsgType_AlterIndex, it.ts), DbName: it.db, CollectionName: it.coll, IndexName: "i"}}
	case "LoadCollection":
		oc.msg = &msgstream.LoadCollectionMsg{BaseMsg: bm, LoadCollectionRequest: &milvuspb.LoadCollectionRequest{Base: srcBase(commonpb.MsgType_LoadCollection, it.ts), DbName: it.db, CollectionName: it.coll}}
	case "ReleaseCollection":
		oc.msg = &msgstream.ReleaseCollectionMsg{BaseMsg: bm, ReleaseCollectionRequest: &milvuspb.ReleaseCollectionRequest{Base: srcBase(commonpb.MsgType_ReleaseCollection, it.ts), DbName: it.db, CollectionName: it.coll}}
	case "Flush":
		oc.msg = &msgstream.FlushMsg{BaseMsg: bm, FlushRequest: &milvuspb.FlushRequest{Base: srcBase(commonpb.MsgType_Flush, it.ts), DbName: it.db, CollectionNames: []string{it.coll}}}
	case "LoadPartitions":
		oc.msg = &msgstream.LoadPartitionsMsg{BaseMsg: bm, LoadPartitionsRequest: &milvuspb.LoadPartitionsRequest{Base: srcBase(commonpb.MsgType_LoadPartitions, it.ts), DbName: it.db, CollectionName: it.coll, PartitionNames: []string{it.part}}}
	case "ReleasePartitions":
		oc.msg = &msgstream.ReleasePartitionsMsg{BaseMsg: bm, ReleasePartitionsRequest: &milvuspb.ReleasePartitionsRequest{Base: srcBase(commonpb.MsgType_ReleasePartitions, it.ts), DbName: it.db, CollectionName: it.coll, PartitionNames: []string{it.part}}}
	default:
		panic("genOpFixed: " + it.kind)
	}
	return oc
}

func genEventFixed(it *c08Item) *api.ReplicateAPIEvent {
	info := &pb.CollectionInfo{ID: int64(1000 + it.collInc), Schema: &schemapb.CollectionSchema{Name: it.coll, Fields: []*schemapb.FieldSchema{
		{FieldID: 100, Name: "pk", IsPrimaryKey: true, DataType: schemapb.DataType_Int64}}}, CreateTime: it.ts, ShardsNum: 1}
	ev := &api.ReplicateAPIEvent{CollectionInfo: info, ReplicateInfo: &commonpb.ReplicateInfo{IsReplicate: true, MsgTimestamp: it.ts},
		ReplicateParam: api.ReplicateParam{Database: it.db}, TaskID: "task1", MsgID: "m"}
	switch it.kind {
	case "EvCreateCollection":
		ev.EventType = api.ReplicateCreateCollection
	case "EvDropCollection":
		ev.EventType = api.ReplicateDropCollection
	case "EvCreatePartition":
		ev.EventType = api.ReplicateCreatePartition
		ev.PartitionInfo = &pb.PartitionInfo{PartitionID: int64(2000 + it.partInc), PartitionName: it.part, CollectionId: info.ID, PartitionCreatedTimestamp: it.ts}
	case "EvDropPartition":
		ev.EventType = api.ReplicateDropPartition
		ev.PartitionInfo = &pb.PartitionInfo{PartitionID: int64(2000 + it.partInc), PartitionName: it.part, CollectionId: info.ID}
	}
	return ev
}

func TestC08(t *testing.T) { rapid.Check(t, propC08) }

// TestC08_Replay: fixed regression histories (no generator involved).
func TestC08_Replay(t *testing.T) {
	// 1. stale op after drop + re-create must not touch the new incarnation
	h := handler.New()
	exists := map[string]bool{}
	h.Behave = func(c *handler.Call) error {
		switch c.Method {
		case "CreateCollection":
			exists[c.Collection] = true
		case "DropCollection":
			delete(exists, c.Collection)
		case "DescribeCollection":
			if !exists[c.Collection] {
				return fmt.Errorf("collection not found")
			}
		}
		return nil
	}
	w, _ := newWriter(h, "", nil, nil)
	run := func(it *c08Item) ([]*handler.Call, error) {
		h.Reset()
		ctx, cancel := shortCtx()
		defer cancel()
		var err error
		if it.isEvent {
			err = w.HandleReplicateAPIEvent(ctx, genEventFixed(it))
		} else {
			_, err = w.HandleOpMessagePack(ctx, genOpFixed(it).pack(false))
		}
		return mutating(h.Calls()), err
	}
	run(&c08Item{isEvent: true, kind: "EvCreateCollection", db: "default", coll: "c1", ts: 1000, collInc: 1})
	run(&c08Item{isEvent: true, kind: "EvDropCollection", db: "default", coll: "c1", ts: 1010, collInc: 1})
	run(&c08Item{isEvent: true, kind: "EvCreateCollection", db: "default", coll: "c1", ts: 1020, collInc: 2})
	if calls, err := run(&c08Item{kind: "CreateIndex", db: "default", coll: "c1", ts: 1005, collInc: 1}); err != nil || len(calls) != 0 {
		t.Fatalf("VERIF-VIOLATION stale CreateIndex(t=1005) after drop(1010)+re-create(1020): calls %v err %v", methods(calls), err)
	}
	if calls, err := run(&c08Item{kind: "CreateIndex", db: "default", coll: "c1", ts: 1030, collInc: 2}); err != nil || len(calls) != 1 {
		t.Fatalf("VERIF-VIOLATION CreateIndex(t=1030) on the re-created collection must run: calls %v err %v", methods(calls), err)
	}
	// 2. restart with a horizon table: op below the horizon skipped, op above applied
	_, dk := util.GetCollectionInfoKeys("c1", "default")
	w, _ = newWriter(h, "", map[string]map[string]uint64{util.DroppedCollectionKey: {dk: 1019}}, nil)
	if calls, err := run(&c08Item{kind: "LoadCollection", db: "default", coll: "c1", ts: 1019, collInc: 1}); err != nil || len(calls) != 0 {
		t.Fatalf("VERIF-VIOLATION replayed LoadCollection(t=1019) with horizon 1019: calls %v err %v", methods(calls), err)
	}
	if calls, err := run(&c08Item{kind: "LoadCollection", db: "default", coll: "c1", ts: 1020, collInc: 2}); err != nil || len(calls) != 1 {
		t.Fatalf("VERIF-VIOLATION replayed LoadCollection(t=1020) above horizon 1019: calls %v err %v", methods(calls), err)
	}
}
