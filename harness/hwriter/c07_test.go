package hwriter

// C07 — bytes sent downstream decode to the emitted messages, marked as replicated.
// (also the DML part of C09: names inside the serialized messages are the mapped ones)

import (
	"bytes"
	"encoding/base64"
	"errors"
	"fmt"
	"sync"
	"testing"

	"google.golang.org/protobuf/proto"
	"pgregory.net/rapid"

	"github.com/milvus-io/milvus-proto/go-api/v2/commonpb"
	"github.com/milvus-io/milvus-proto/go-api/v2/msgpb"
	"github.com/milvus-io/milvus-proto/go-api/v2/schemapb"
	"github.com/milvus-io/milvus/pkg/mq/msgstream"

	"verifharness/fakes/handler"
	"verifharness/stats"
)

func genFieldData(t *rapid.T, rows int, i int) *schemapb.FieldData {
	name := fmt.Sprintf("f%d_%s", i, rapid.StringN(0, 4, -1).Draw(t, "fieldName"))
	fd := &schemapb.FieldData{FieldName: name, FieldId: int64(100 + i)}
	switch rapid.SampledFrom([]string{"int64", "varchar", "float", "bool", "fvec", "bvec", "json"}).Draw(t, "fieldType") {
	case "int64":
		fd.Type = schemapb.DataType_Int64
		fd.Field = &schemapb.FieldData_Scalars{Scalars: &schemapb.ScalarField{Data: &schemapb.ScalarField_LongData{LongData: &schemapb.LongArray{Data: rapid.SliceOfN(rapid.Int64(), rows, rows).Draw(t, "i64")}}}}
	case "varchar":
		fd.Type = schemapb.DataType_VarChar
		fd.Field = &schemapb.FieldData_Scalars{Scalars: &schemapb.ScalarField{Data: &schemapb.ScalarField_StringData{StringData: &schemapb.StringArray{Data: rapid.SliceOfN(rapid.StringN(0, 6, -1), rows, rows).Draw(t, "str")}}}}
	case "float":
		fd.Type = schemapb.DataType_Float
		fd.Field = &schemapb.FieldData_Scalars{Scalars: &schemapb.ScalarField{Data: &schemapb.ScalarField_FloatData{FloatData: &schemapb.FloatArray{Data: rapid.SliceOfN(rapid.Float32Range(-1e6, 1e6), rows, rows).Draw(t, "f32")}}}}
	case "bool":
		fd.Type = schemapb.DataType_Bool
		fd.Field = &schemapb.FieldData_Scalars{Scalars: &schemapb.ScalarField{Data: &schemapb.ScalarField_BoolData{BoolData: &schemapb.BoolArray{Data: rapid.SliceOfN(rapid.Bool(), rows, rows).Draw(t, "bool")}}}}
	case "fvec":
		dim := rapid.IntRange(1, 4).Draw(t, "dim")
		fd.Type = schemapb.DataType_FloatVector
		fd.Field = &schemapb.FieldData_Vectors{Vectors: &schemapb.VectorField{Dim: int64(dim), Data: &schemapb.VectorField_FloatVector{FloatVector: &schemapb.FloatArray{Data: rapid.SliceOfN(rapid.Float32Range(-1, 1), rows*dim, rows*dim).Draw(t, "vec")}}}}
	case "bvec":
		fd.Type = schemapb.DataType_BinaryVector
		fd.Field = &schemapb.FieldData_Vectors{Vectors: &schemapb.VectorField{Dim: 8, Data: &schemapb.VectorField_BinaryVector{BinaryVector: rapid.SliceOfN(rapid.Byte(), rows, rows).Draw(t, "bvec")}}}
	case "json":
		fd.Type = schemapb.DataType_JSON
		var js [][]byte
		for r := 0; r < rows; r++ {
			js = append(js, []byte(fmt.Sprintf(`{"k":%d}`, rapid.IntRange(0, 99).Draw(t, "jsonv"))))
		}
		fd.Field = &schemapb.FieldData_Scalars{Scalars: &schemapb.ScalarField{Data: &schemapb.ScalarField_JsonData{JsonData: &schemapb.JSONArray{Data: js}}}}
	}
	return fd
}

func posFor(t *rapid.T, ch string, ts uint64) *msgpb.MsgPosition {
	return &msgpb.MsgPosition{ChannelName: ch, MsgID: rapid.SliceOfN(rapid.Byte(), 1, 8).Draw(t, "msgID"), MsgGroup: "g", Timestamp: ts}
}

func repeatTs(ts uint64, n int) []uint64 {
	r := make([]uint64, n)
	for i := range r {
		r[i] = ts
	}
	return r
}

type dmlMsg struct {
	msg        msgstream.TsMsg
	src        proto.Message // deep copy of the request proto before the writer touched it
	kind       string
	rows       int
	preStamped bool
	db         string
	coll       string
}

func genDML(t *rapid.T, kind string, db, coll string, ts uint64, vch string) *dmlMsg {
	d := &dmlMsg{kind: kind, db: db, coll: coll}
	bm := msgstream.BaseMsg{BeginTimestamp: ts, EndTimestamp: ts, HashValues: []uint32{0}, MsgPosition: posFor(t, vch, ts)}
	switch kind {
	case "insert":
		rows := rapid.IntRange(0, 12).Draw(t, "rows")
		d.rows = rows
		nf := rapid.IntRange(1, 3).Draw(t, "nfields")
		var fds []*schemapb.FieldData
		for i := 0; i < nf; i++ {
			fds = append(fds, genFieldData(t, rows, i))
		}
		r := &msgpb.InsertRequest{Base: &commonpb.MsgBase{MsgType: commonpb.MsgType_Insert, Timestamp: ts, MsgID: rapid.Int64().Draw(t, "msgid"), SourceID: 3},
			ShardName: vch, DbName: db, CollectionName: coll, PartitionName: rapid.SampledFrom([]string{"_default", "p1", "分区"}).Draw(t, "partition"),
			DbID: 1, CollectionID: rapid.Int64Range(1, 1<<40).Draw(t, "collID"), PartitionID: rapid.Int64Range(1, 1<<40).Draw(t, "partID"), SegmentID: 0,
			Timestamps: repeatTs(ts, rows), RowIDs: rapid.SliceOfN(rapid.Int64(), rows, rows).Draw(t, "rowIDs"), FieldsData: fds, NumRows: uint64(rows), Version: msgpb.InsertDataVersion_ColumnBased}
		d.msg, d.src = &msgstream.InsertMsg{BaseMsg: bm, InsertRequest: r}, proto.Clone(r)
	case "delete":
		rows := rapid.IntRange(1, 8).Draw(t, "rows")
		d.rows = rows
		var ids *schemapb.IDs
		if rapid.Bool().Draw(t, "strPK") {
			ids = &schemapb.IDs{IdField: &schemapb.IDs_StrId{StrId: &schemapb.StringArray{Data: rapid.SliceOfN(rapid.StringN(0, 5, -1), rows, rows).Draw(t, "pkStr")}}}
		} else {
			ids = &schemapb.IDs{IdField: &schemapb.IDs_IntId{IntId: &schemapb.LongArray{Data: rapid.SliceOfN(rapid.Int64(), rows, rows).Draw(t, "pkInt")}}}
		}
		r := &msgpb.DeleteRequest{Base: &commonpb.MsgBase{MsgType: commonpb.MsgType_Delete, Timestamp: ts, MsgID: rapid.Int64().Draw(t, "msgid")},
			ShardName: vch, DbName: db, CollectionName: coll, PartitionName: rapid.SampledFrom([]string{"", "_default", "p1"}).Draw(t, "partition"),
			CollectionID: rapid.Int64Range(1, 1<<40).Draw(t, "collID"), PartitionID: rapid.Int64Range(-1, 1<<40).Draw(t, "partID"),
			Timestamps: repeatTs(ts, rows), PrimaryKeys: ids, NumRows: int64(rows)}
		d.msg, d.src = &msgstream.DeleteMsg{BaseMsg: bm, DeleteRequest: r}, proto.Clone(r)
	case "dropCollection":
		r := &msgpb.DropCollectionRequest{Base: &commonpb.MsgBase{MsgType: commonpb.MsgType_DropCollection, Timestamp: ts}, DbName: db, CollectionName: coll,
			CollectionID: rapid.Int64Range(1, 1<<40).Draw(t, "collID")}
		d.msg, d.src = &msgstream.DropCollectionMsg{BaseMsg: bm, DropCollectionRequest: r}, proto.Clone(r)
	case "dropPartition":
		r := &msgpb.DropPartitionRequest{Base: &commonpb.MsgBase{MsgType: commonpb.MsgType_DropPartition, Timestamp: ts}, DbName: db, CollectionName: coll,
			PartitionName: "p1", CollectionID: rapid.Int64Range(1, 1<<40).Draw(t, "collID"), PartitionID: rapid.Int64Range(1, 1<<40).Draw(t, "partID")}
		d.msg, d.src = &msgstream.DropPartitionMsg{BaseMsg: bm, DropPartitionRequest: r}, proto.Clone(r)
	case "import":
		r := &msgpb.ImportMsg{Base: &commonpb.MsgBase{MsgType: commonpb.MsgType_Import, Timestamp: ts}, DbName: db, CollectionName: coll,
			CollectionID: rapid.Int64Range(1, 1<<40).Draw(t, "collID"), PartitionIDs: rapid.SliceOfN(rapid.Int64Range(1, 1000), 1, 3).Draw(t, "pids"),
			Options: map[string]string{"k": rapid.StringN(0, 4, -1).Draw(t, "opt")}, JobID: rapid.Int64Range(1, 1000).Draw(t, "job")}
		d.msg, d.src = &msgstream.ImportMsg{BaseMsg: bm, ImportMsg: r}, proto.Clone(r)
	case "tick":
		r := &msgpb.TimeTickMsg{Base: &commonpb.MsgBase{MsgType: commonpb.MsgType_TimeTick, Timestamp: ts, SourceID: -1}}
		d.msg, d.src = &msgstream.TimeTickMsg{BaseMsg: bm, TimeTickMsg: r}, proto.Clone(r)
	}
	// a source message may already carry a replication stamp (chained replication, or an empty one)
	if kind != "tick" {
		var ri *commonpb.ReplicateInfo
		switch rapid.IntRange(0, 7).Draw(t, "sourceReplicateInfo") {
		case 4, 5:
			ri = &commonpb.ReplicateInfo{}
		case 6:
			ri = &commonpb.ReplicateInfo{IsReplicate: true, ReplicateID: "upstream-rid", MsgTimestamp: 9}
		}
		if ri != nil {
			type based interface{ GetBase() *commonpb.MsgBase }
			d.msg.(based).GetBase().ReplicateInfo = proto.Clone(ri).(*commonpb.ReplicateInfo)
			d.src.(based).GetBase().ReplicateInfo = proto.Clone(ri).(*commonpb.ReplicateInfo)
			d.preStamped = true
		}
	}
	return d
}

type c07Pack struct {
	channel string
	pack    *msgstream.MsgPack
	msgs    []*dmlMsg
	start   []*msgpb.MsgPosition
	end     []*msgpb.MsgPosition
	begin   uint64
	endTs   uint64
	outcome string // ok | error | badposition
}

func genC07Pack(t *rapid.T, idx int, db, coll string) *c07Pack {
	ch := fmt.Sprintf("tgt-dml_%d", idx)
	vch := fmt.Sprintf("%s_9001v%d", ch, idx)
	base := rapid.Uint64Range(1000, 1<<50).Draw(t, "baseTs")
	n := rapid.IntRange(1, 5).Draw(t, "nmsgs")
	p := &c07Pack{channel: ch}
	ts := base
	for i := 0; i < n; i++ {
		if rapid.Bool().Draw(t, "advance") {
			ts++
		}
		kind := rapid.SampledFrom([]string{"insert", "insert", "delete", "delete", "dropCollection", "dropPartition", "import", "tick"}).Draw(t, "dmlKind")
		p.msgs = append(p.msgs, genDML(t, kind, db, coll, ts, vch))
	}
	p.msgs = append(p.msgs, genDML(t, "tick", db, coll, ts, vch)) // packs end with the closing tick (C03)
	p.begin, p.endTs = base, ts
	ns := rapid.IntRange(1, 2).Draw(t, "nstart")
	for i := 0; i < ns; i++ {
		p.start = append(p.start, posFor(t, ch, base))
		p.end = append(p.end, posFor(t, ch, ts))
	}
	var ms []msgstream.TsMsg
	for _, m := range p.msgs {
		ms = append(ms, m.msg)
	}
	p.pack = &msgstream.MsgPack{BeginTs: p.begin, EndTs: p.endTs, Msgs: ms, StartPositions: clonePos(p.start), EndPositions: clonePos(p.end)}
	p.outcome = rapid.SampledFrom([]string{"ok", "ok", "ok", "error", "badposition"}).Draw(t, "outcome")
	return p
}

func clonePos(ps []*msgpb.MsgPosition) []*msgpb.MsgPosition {
	r := make([]*msgpb.MsgPosition, len(ps))
	for i, p := range ps {
		r[i] = proto.Clone(p).(*msgpb.MsgPosition)
	}
	return r
}

var udf = (&msgstream.ProtoUDFactory{}).NewUnmarshalDispatcher()

// decodeLikeProxy decodes one serialized message the way the receiving Milvus proxy does.
func decodeLikeProxy(b []byte) (msgstream.TsMsg, error) {
	header := &commonpb.MsgHeader{}
	if err := proto.Unmarshal(b, header); err != nil {
		return nil, err
	}
	if header.GetBase() == nil {
		return nil, errors.New("no base in message header")
	}
	return udf.Unmarshal(b, header.GetBase().GetMsgType())
}

func reqOf(m msgstream.TsMsg) proto.Message {
	switch x := m.(type) {
	case *msgstream.InsertMsg:
		return x.InsertRequest
	case *msgstream.DeleteMsg:
		return x.DeleteRequest
	case *msgstream.DropCollectionMsg:
		return x.DropCollectionRequest
	case *msgstream.DropPartitionMsg:
		return x.DropPartitionRequest
	case *msgstream.ImportMsg:
		return x.ImportMsg
	case *msgstream.TimeTickMsg:
		return x.TimeTickMsg
	case *msgstream.ReplicateMsg:
		return x.ReplicateMsg
	}
	return nil
}

func setNames(m proto.Message, db, coll string) {
	r := m.ProtoReflect()
	if fd := r.Descriptor().Fields().ByName("db_name"); fd != nil {
		r.Set(fd, protoString(db))
	}
	for _, n := range []string{"collection_name", "collectionName"} {
		if fd := r.Descriptor().Fields().ByName(protoName(n)); fd != nil {
			r.Set(fd, protoString(coll))
		}
	}
}

func propC07(t *rapid.T, prop string) {
	sc := stats.New(prop)
	srcDB := genSrcDB(t)
	coll := rapid.SampledFrom([]string{"c1", "c2"}).Draw(t, "coll")
	mapping, shape := genMapping(t, srcDB, []string{"c1", "c2"})
	replicateID := rapid.SampledFrom([]string{"", "rid-7"}).Draw(t, "replicateID")
	wantDB, wantColl := refMap(mapping, srcDB, coll)
	np := rapid.IntRange(1, 4).Draw(t, "concurrentCalls")
	var packs []*c07Pack
	for i := 0; i < np; i++ {
		packs = append(packs, genC07Pack(t, i, srcDB, coll))
	}
	byChannel := map[string]*c07Pack{}
	for _, p := range packs {
		byChannel[p.channel] = p
	}
	h := handler.New()
	h.Behave = func(c *handler.Call) error {
		if byChannel[c.Channel].outcome == "error" {
			return fmt.Errorf("downstream-rejected-%s", c.Channel)
		}
		return nil
	}
	h.TargetPosition = func(c *handler.Call) string {
		if byChannel[c.Channel].outcome == "badposition" {
			return "%%%not base64%%%"
		}
		return base64.StdEncoding.EncodeToString([]byte("tpos-" + c.Channel))
	}
	w, _ := newWriter(h, replicateID, nil, mapping)
	type res struct {
		src, tgt []byte
		err      error
	}
	results := make([]res, np)
	var wg sync.WaitGroup
	for i, p := range packs {
		wg.Add(1)
		go func(i int, p *c07Pack) {
			defer wg.Done()
			ctx, cancel := shortCtx()
			defer cancel()
			s, g, err := w.HandleReplicateMessage(ctx, p.channel, p.pack)
			results[i] = res{s, g, err}
		}(i, p)
	}
	wg.Wait()
	calls := h.Calls()
	if len(calls) != np {
		t.Fatalf("%d packs handed over on %d channels but %d downstream calls", np, np, len(calls))
	}
	types := map[string]bool{}
	rowsTotal := 0
	for i, p := range packs {
		var c *handler.Call
		for _, x := range calls {
			if x.Method == "ReplicateMessage" && x.Channel == p.channel {
				c = x
			}
		}
		what := fmt.Sprintf("[channel %s replicateID=%q mapping=%v]", p.channel, replicateID, sortedKeys(mapping))
		if c == nil {
			t.Fatalf("%s no ReplicateMessage call for the pack", what)
		}
		r := results[i]
		if prop == "C07" {
			switch p.outcome {
			case "error":
				if r.err == nil || r.err.Error() != "downstream-rejected-"+p.channel {
					t.Fatalf("%s downstream rejected the call but the writer returned err=%v", what, r.err)
				}
				if r.src != nil {
					t.Fatalf("%s failed call still returned a checkpoint %v", what, r.src)
				}
			case "badposition":
				if r.err == nil {
					t.Fatalf("%s undecodable downstream position accepted (checkpoint %v)", what, r.src)
				}
			default:
				if r.err != nil {
					t.Fatalf("%s successful call returned %v", what, r.err)
				}
				if !bytes.Equal(r.src, p.end[len(p.end)-1].MsgID) {
					t.Fatalf("%s returned source checkpoint %v, last end position of the pack has %v", what, r.src, p.end[len(p.end)-1].MsgID)
				}
				if string(r.tgt) != "tpos-"+p.channel {
					t.Fatalf("%s returned target position %q, downstream answered %q", what, r.tgt, "tpos-"+p.channel)
				}
			}
			if c.Base == nil || c.Base.ReplicateInfo == nil || !c.Base.ReplicateInfo.IsReplicate {
				t.Fatalf("%s call is not flagged as replication: %v", what, c.Base)
			}
			if c.BeginTs != p.begin || c.EndTs != p.endTs {
				t.Fatalf("%s call carries begin/end %d/%d, pack has %d/%d", what, c.BeginTs, c.EndTs, p.begin, p.endTs)
			}
			if !posEq(c.StartPos, p.start) || !posEq(c.EndPos, p.end) {
				t.Fatalf("%s call carries positions %v / %v, pack has %v / %v", what, c.StartPos, c.EndPos, p.start, p.end)
			}
		}
		if len(c.MsgsBytes) != len(p.msgs) {
			t.Fatalf("%s %d serialized messages for a pack of %d", what, len(c.MsgsBytes), len(p.msgs))
		}
		for k, m := range p.msgs {
			dec, err := decodeLikeProxy(c.MsgsBytes[k])
			if err != nil {
				t.Fatalf("%s message %d (%s) does not decode with Milvus' decoder: %v", what, k, m.kind, err)
			}
			types[m.kind] = true
			rowsTotal += m.rows
			if m.kind == "tick" && replicateID != "" {
				rm, ok := dec.(*msgstream.ReplicateMsg)
				if prop != "C07" {
					continue
				}
				if !ok || dec.Type() != commonpb.MsgType_Replicate {
					t.Fatalf("%s message %d: tick must be converted to a replicate-tick, got %v", what, k, dec.Type())
				}
				ri := rm.GetBase().GetReplicateInfo()
				if rm.GetBase().GetTimestamp() != m.msg.EndTs() || ri == nil || !ri.IsReplicate || ri.ReplicateID != replicateID || rm.GetIsEnd() {
					t.Fatalf("%s message %d: replicate-tick %v does not carry tick time %d / replicate id %q", what, k, rm.ReplicateMsg, m.msg.EndTs(), replicateID)
				}
				continue
			}
			if dec.Type() != m.msg.Type() {
				t.Fatalf("%s message %d decodes to %v, pack has %v", what, k, dec.Type(), m.msg.Type())
			}
			got := reqOf(dec)
			if prop == "C09" {
				if m.kind == "tick" {
					continue
				}
				g := got.(interface {
					GetDbName() string
					GetCollectionName() string
				})
				if canonDB(g.GetDbName()) != wantDB || g.GetCollectionName() != wantColl {
					t.Fatalf("%s message %d (%s) names %q.%q downstream; mapping applied to source %q.%q gives %q.%q", what, k, m.kind, g.GetDbName(), g.GetCollectionName(), srcDB, coll, wantDB, wantColl)
				}
				continue
			}
			want := proto.Clone(m.src)
			if m.kind != "tick" {
				setNames(want, wantDB, wantColl) // C09 states the names; here they are normalised on both sides
				setNames(got, wantDB, wantColl)
			}
			if replicateID != "" {
				b := want.ProtoReflect().Get(want.ProtoReflect().Descriptor().Fields().ByName("base")).Message().Interface().(*commonpb.MsgBase)
				// "additionally carries it": the flag and the id are set, whatever else a source stamp held stays
				if b.ReplicateInfo == nil {
					b.ReplicateInfo = &commonpb.ReplicateInfo{}
				}
				b.ReplicateInfo.IsReplicate, b.ReplicateInfo.ReplicateID = true, replicateID
			}
			if !proto.Equal(got, want) {
				t.Fatalf("%s message %d (%s) decodes to\n  %v\nbut the pack handed to the writer had\n  %v", what, k, m.kind, got, want)
			}
		}
	}
	sc.Class("mapping:" + string(shape))
	sc.ClassIf(replicateID != "", "replicate-id")
	for _, pk := range packs {
		for _, m := range pk.msgs {
			sc.ClassIf(m.preStamped, "source-message-already-stamped")
		}
	}
	sc.ClassIf(np > 1, "concurrent-channels")
	for k := range types {
		sc.Class("msg:" + k)
	}
	for _, p := range packs {
		sc.Class("outcome:" + p.outcome)
	}
	nt := 0
	for k := range types {
		if k != "tick" {
			nt++
		}
	}
	if prop == "C07" {
		sc.NonTrivial(nt >= 2 && rowsTotal >= 1)
	} else {
		sc.NonTrivial(wantDB != canonDB(srcDB) && nt >= 1)
	}
	var fp []string
	for _, p := range packs {
		for _, m := range p.msgs {
			fp = append(fp, fmt.Sprint(m.kind, m.src))
		}
	}
	sc.Fingerprint(fmt.Sprint(srcDB, coll, sortedKeys(mapping), replicateID, fp))
	var smp []any
	for _, p := range packs {
		var ks []string
		for _, m := range p.msgs {
			ks = append(ks, fmt.Sprintf("%s(rows=%d)", m.kind, m.rows))
		}
		smp = append(smp, map[string]any{"channel": p.channel, "msgs": ks, "begin": p.begin, "end": p.endTs, "downstream": p.outcome})
	}
	sc.Sample(map[string]any{"srcDB": srcDB, "collection": coll, "mapping": sortedKeys(mapping), "replicateID": replicateID, "packs": smp})
	sc.Done()
}

func posEq(a, b []*msgpb.MsgPosition) bool {
	if len(a) != len(b) {
		return false
	}
	for i := range a {
		if !proto.Equal(a[i], b[i]) {
			return false
		}
	}
	return true
}

func TestC07(t *testing.T)     { rapid.Check(t, func(t *rapid.T) { propC07(t, "C07") }) }
func TestC09_DML(t *testing.T) { rapid.Check(t, func(t *rapid.T) { propC07(t, "C09") }) }
