package hwriter

import (
	"os"
	"strings"
	"testing"

	"go.uber.org/zap/zapcore"

	"github.com/zilliztech/milvus-cdc/core/log"

	"verifharness/stats"
)

func TestMain(m *testing.M) {
	log.SetLevel(zapcore.FatalLevel)
	stats.Main(m.Run)
}

func tier() string {
	if v := os.Getenv("VERIF_TIER"); v != "" {
		return v
	}
	return "quick"
}

func known(id string) bool {
	for _, k := range strings.Split(os.Getenv("VERIF_KNOWN"), ",") {
		if k == id {
			return true
		}
	}
	return false
}
