package hpure

// C17 — drop-message readiness accumulates across shards, persists, is removable.
//
// Real core/meta.ReplicateMeteImpl over an in-memory api.ReplicateStore that round-trips every value
// through JSON exactly like EtcdReplicateStore / MySQLReplicateStore do.
// Model: (task, msg) -> {kind, target shard set, reported shard set, names, drop ts}.
// After every step: decoded store content == in-memory view (Get*) == model; Update* returns ready
// iff reported == target; Remove deletes from store and memory for both kinds; a reload (new
// ReplicateMeteImpl over the same store) answers Get* like the model.

import (
	"context"
	"encoding/json"
	"fmt"
	"sort"
	"strings"
	"sync"
	"testing"

	"pgregory.net/rapid"

	"github.com/zilliztech/milvus-cdc/core/api"
	"github.com/zilliztech/milvus-cdc/core/meta"

	"verifharness/stats"
)

type jsonStore struct {
	mu sync.Mutex
	m  map[string]string
}

func (s *jsonStore) Get(ctx context.Context, key string, withPrefix bool) ([]api.MetaMsg, error) {
	s.mu.Lock()
	defer s.mu.Unlock()
	keys := make([]string, 0, len(s.m))
	for k := range s.m {
		if (withPrefix && strings.HasPrefix(k, key)) || (!withPrefix && k == key) {
			keys = append(keys, k)
		}
	}
	sort.Strings(keys)
	var r []api.MetaMsg
	for _, k := range keys {
		var m api.MetaMsg
		if err := json.Unmarshal([]byte(s.m[k]), &m); err != nil {
			return nil, err
		}
		r = append(r, m)
	}
	return r, nil
}

func (s *jsonStore) Put(ctx context.Context, key string, value api.MetaMsg) error {
	b, err := json.Marshal(value)
	if err != nil {
		return err
	}
	s.mu.Lock()
	defer s.mu.Unlock()
	s.m[key] = string(b)
	return nil
}

func (s *jsonStore) Remove(ctx context.Context, key string) error {
	s.mu.Lock()
	defer s.mu.Unlock()
	delete(s.m, key)
	return nil
}

type c17Msg struct {
	part    bool
	target  []string
	ready   map[string]bool
	db, col string
	pname   string
	ts      uint64
	reports int
}

func (m *c17Msg) readyList() []string {
	var r []string
	for k := range m.ready {
		r = append(r, k)
	}
	sort.Strings(r)
	return r
}

func (m *c17Msg) isReady() bool {
	if len(m.ready) != len(m.target) {
		return false
	}
	for _, t := range m.target {
		if !m.ready[t] {
			return false
		}
	}
	return true
}

func sortedCopy(s []string) []string {
	r := append([]string(nil), s...)
	sort.Strings(r)
	return r
}

func sameSet(a, b []string) bool {
	x, y := sortedCopy(a), sortedCopy(b)
	if len(x) != len(y) {
		return false
	}
	for i := range x {
		if x[i] != y[i] {
			return false
		}
	}
	return true
}

type c17World struct {
	store *jsonStore
	impl  *meta.ReplicateMeteImpl
	model map[string]map[string]*c17Msg // task -> msgID -> msg
	hist  []string
}

func (w *c17World) checkAll(t *rapid.T, when string) {
	ctx := context.Background()
	// 1. store == model
	want := map[string]*c17Msg{}
	for task, ms := range w.model {
		for id, m := range ms {
			want[meta.GetMetaKey(task, id)] = m
		}
	}
	w.store.mu.Lock()
	got := map[string]string{}
	for k, v := range w.store.m {
		got[k] = v
	}
	w.store.mu.Unlock()
	for k := range got {
		if want[k] == nil {
			t.Fatalf("%s: store still holds %s although the message was removed; history %v", when, k, w.hist)
		}
	}
	for k, m := range want {
		raw, ok := got[k]
		if !ok {
			t.Fatalf("%s: store lacks %s; history %v", when, k, w.hist)
		}
		var mm api.MetaMsg
		if err := json.Unmarshal([]byte(raw), &mm); err != nil {
			t.Fatalf("%s: store value undecodable: %v", when, err)
		}
		if !sameSet(mm.Base.ReadyChannels, m.readyList()) {
			t.Fatalf("%s: store has ready shards %v for %s, union of all reports is %v; history %v", when, mm.Base.ReadyChannels, k, m.readyList(), w.hist)
		}
		if !sameSet(mm.Base.TargetChannels, m.target) {
			t.Fatalf("%s: store has target shards %v for %s, expected %v", when, mm.Base.TargetChannels, k, m.target)
		}
		wantType := api.DropCollectionMetaMsgType
		if m.part {
			wantType = api.DropPartitionMetaMsgType
		}
		if mm.Type != wantType {
			t.Fatalf("%s: store has type %d for %s, expected %d", when, mm.Type, k, wantType)
		}
	}
	// 2. memory == model (through the public getters)
	for task, ms := range w.model {
		for id, m := range ms {
			if m.part {
				r, err := w.impl.GetTaskDropPartitionMsg(ctx, task, id)
				if err != nil || len(r) != 1 {
					t.Fatalf("%s: memory lacks partition msg %s/%s: %v %v; history %v", when, task, id, r, err, w.hist)
				}
				if !sameSet(r[0].Base.ReadyChannels, m.readyList()) {
					t.Fatalf("%s: memory has ready shards %v for %s/%s, union of all reports is %v; history %v", when, r[0].Base.ReadyChannels, task, id, m.readyList(), w.hist)
				}
				if r[0].Base.IsReady() != m.isReady() {
					t.Fatalf("%s: memory says ready=%v for %s/%s, model %v", when, r[0].Base.IsReady(), task, id, m.isReady())
				}
				if r[0].DatabaseName != m.db || r[0].CollectionName != m.col || r[0].PartitionName != m.pname || r[0].DropTS != m.ts {
					t.Fatalf("%s: memory has %+v for %s/%s, expected names %s/%s/%s ts %d", when, r[0], task, id, m.db, m.col, m.pname, m.ts)
				}
				if r2, err := w.impl.GetTaskDropCollectionMsg(ctx, task, id); err == nil && len(r2) > 0 {
					t.Fatalf("%s: partition msg %s/%s is also returned as collection msg", when, task, id)
				}
			} else {
				r, err := w.impl.GetTaskDropCollectionMsg(ctx, task, id)
				if err != nil || len(r) != 1 {
					t.Fatalf("%s: memory lacks collection msg %s/%s: %v %v; history %v", when, task, id, r, err, w.hist)
				}
				if !sameSet(r[0].Base.ReadyChannels, m.readyList()) {
					t.Fatalf("%s: memory has ready shards %v for %s/%s, union of all reports is %v; history %v", when, r[0].Base.ReadyChannels, task, id, m.readyList(), w.hist)
				}
				if r[0].Base.IsReady() != m.isReady() {
					t.Fatalf("%s: memory says ready=%v for %s/%s, model %v", when, r[0].Base.IsReady(), task, id, m.isReady())
				}
				if r[0].DatabaseName != m.db || r[0].CollectionName != m.col || r[0].DropTS != m.ts {
					t.Fatalf("%s: memory has %+v for %s/%s, expected names %s/%s ts %d", when, r[0], task, id, m.db, m.col, m.ts)
				}
			}
		}
	}
	// 3. nothing else in memory: list per task
	for _, task := range c17Tasks {
		nc, np := 0, 0
		for _, m := range w.model[task] {
			if m.part {
				np++
			} else {
				nc++
			}
		}
		if r, err := w.impl.GetTaskDropCollectionMsg(ctx, task, ""); err == nil && len(r) != nc {
			t.Fatalf("%s: memory lists %d collection msgs for %s, model has %d; history %v", when, len(r), task, nc, w.hist)
		} else if err != nil && nc != 0 {
			t.Fatalf("%s: listing collection msgs of %s failed (%v) but model has %d", when, task, err, nc)
		}
		if r, err := w.impl.GetTaskDropPartitionMsg(ctx, task, ""); err == nil && len(r) != np {
			t.Fatalf("%s: memory lists %d partition msgs for %s, model has %d (a removed message is still in memory); history %v", when, len(r), task, np, w.hist)
		} else if err != nil && np != 0 {
			t.Fatalf("%s: listing partition msgs of %s failed (%v) but model has %d", when, task, err, np)
		}
	}
}

var c17Tasks = []string{"t1", "t2", "t10"}

func propC17(t *rapid.T) {
	sc := stats.New("C17")
	ctx := context.Background()
	w := &c17World{store: &jsonStore{m: map[string]string{}}, model: map[string]map[string]*c17Msg{}}
	impl, err := meta.NewReplicateMetaImpl(w.store)
	if err != nil {
		t.Fatalf("new: %v", err)
	}
	w.impl = impl
	shards := []string{"src-dml_0_1v0", "src-dml_1_1v1", "src-dml_2_1v2", "src-dml_3_1v3"}
	// per message: fixed kind and target set (callers always pass the collection's full shard list)
	type msgDef struct {
		id     string
		part   bool
		target []string
	}
	var defs []msgDef
	nm := rapid.IntRange(1, 3).Draw(t, "messages")
	for i := 0; i < nm; i++ {
		part := rapid.Bool().Draw(t, "partitionKind")
		n := rapid.IntRange(1, 4).Draw(t, "shards")
		id := api.GetDropCollectionMsgID(int64(100 + i))
		if part {
			id = api.GetDropPartitionMsgID(int64(100+i), int64(7+i))
		}
		defs = append(defs, msgDef{id, part, append([]string(nil), shards[:n]...)})
	}
	reloads, removes, maxReports, reloadBetween := 0, 0, 0, false
	foreign := false
	steps := rapid.IntRange(1, 20).Draw(t, "steps")
	for s := 0; s < steps; s++ {
		switch rapid.SampledFrom([]string{"report", "report", "report", "report", "remove", "reload"}).Draw(t, "action") {
		case "report":
			task := rapid.SampledFrom(c17Tasks).Draw(t, "task")
			d := defs[rapid.IntRange(0, len(defs)-1).Draw(t, "msg")]
			k := rapid.IntRange(1, 2).Draw(t, "nreport")
			var rep []string
			for len(rep) < k && len(rep) < len(d.target) {
				c := rapid.SampledFrom(d.target).Draw(t, "shard")
				// rarely a report names a shard outside the message's target set (another collection's shard, or a shard the
				// target list no longer has): the union then never equals the target set - "ready exactly when ... equals"
				if rapid.IntRange(0, 11).Draw(t, "foreignShard") == 0 {
					c = rapid.SampledFrom(append(append([]string(nil), shards...), "src-dml_9_1v9")).Draw(t, "anyShard")
					if !contains(d.target, c) {
						foreign = true
					}
				}
				dup := false
				for _, x := range rep {
					dup = dup || x == c
				}
				if !dup {
					rep = append(rep, c)
				}
			}
			base := api.BaseTaskMsg{TaskID: task, MsgID: d.id, TargetChannels: append([]string(nil), d.target...), ReadyChannels: append([]string(nil), rep...)}
			if w.model[task] == nil {
				w.model[task] = map[string]*c17Msg{}
			}
			m := w.model[task][d.id]
			if m == nil {
				m = &c17Msg{part: d.part, target: d.target, ready: map[string]bool{}, db: "db", col: "c" + d.id, ts: uint64(1000 + s)}
				if d.part {
					m.pname = "p" + d.id
				}
				w.model[task][d.id] = m
			}
			for _, r := range rep {
				m.ready[r] = true
			}
			m.reports++
			if m.reports > maxReports {
				maxReports = m.reports
			}
			var ready bool
			if d.part {
				ready, err = w.impl.UpdateTaskDropPartitionMsg(ctx, api.TaskDropPartitionMsg{Base: base, DatabaseName: m.db, CollectionName: m.col, PartitionName: m.pname, DropTS: m.ts})
			} else {
				ready, err = w.impl.UpdateTaskDropCollectionMsg(ctx, api.TaskDropCollectionMsg{Base: base, DatabaseName: m.db, CollectionName: m.col, DropTS: m.ts})
			}
			w.hist = append(w.hist, fmt.Sprintf("report(%s,%s,%v)->%v", task, d.id, rep, ready))
			if err != nil {
				t.Fatalf("update failed: %v", err)
			}
			if ready != m.isReady() {
				t.Fatalf("update reported ready=%v but union of reports %v vs target %v means %v; history %v", ready, m.readyList(), m.target, m.isReady(), w.hist)
			}
		case "remove":
			task := rapid.SampledFrom(c17Tasks).Draw(t, "task")
			d := defs[rapid.IntRange(0, len(defs)-1).Draw(t, "msg")]
			if err := w.impl.RemoveTaskMsg(ctx, task, d.id); err != nil {
				t.Fatalf("remove failed: %v", err)
			}
			if w.model[task] != nil {
				if w.model[task][d.id] != nil {
					removes++
				}
				delete(w.model[task], d.id)
			}
			w.hist = append(w.hist, fmt.Sprintf("remove(%s,%s)", task, d.id))
		case "reload":
			impl, err := meta.NewReplicateMetaImpl(w.store)
			if err != nil {
				t.Fatalf("reload: %v", err)
			}
			w.impl = impl
			reloads++
			for _, ms := range w.model {
				for _, m := range ms {
					if m.reports > 0 && !m.isReady() {
						reloadBetween = true
					}
				}
			}
			w.hist = append(w.hist, "reload")
		}
		w.checkAll(t, fmt.Sprintf("after step %d", s))
	}
	sc.ClassIf(reloads > 0, "reload")
	sc.ClassIf(removes > 0, "remove-existing")
	sc.ClassIf(maxReports >= 3, "three-or-more-reports")
	sc.ClassIf(reloadBetween, "reload-between-reports")
	sc.ClassIf(foreign, "report-from-a-shard-outside-the-target-set")
	sc.NonTrivial(maxReports >= 3 || reloadBetween)
	sc.Fingerprint(w.hist)
	sc.Sample(map[string]any{"history": w.hist})
	sc.Done()
}

func contains(l []string, x string) bool {
	for _, e := range l {
		if e == x {
			return true
		}
	}
	return false
}

func TestC17(t *testing.T) { rapid.Check(t, propC17) }

// TestC17_Replay: shrunk failures of the two defects fixed in /repo (0b31c4a, 837653d), as plain regressions.
func TestC17_Replay(t *testing.T) {
	ctx := context.Background()
	st := &jsonStore{m: map[string]string{}}
	impl, _ := meta.NewReplicateMetaImpl(st)
	tgt := []string{"a", "b", "c"}
	rep := func(s string) (bool, error) {
		return impl.UpdateTaskDropPartitionMsg(ctx, api.TaskDropPartitionMsg{Base: api.BaseTaskMsg{TaskID: "t", MsgID: "m", TargetChannels: append([]string(nil), tgt...), ReadyChannels: []string{s}}, PartitionName: "p"})
	}
	for i, s := range tgt {
		ready, err := rep(s)
		if err != nil || ready != (i == 2) {
			t.Fatalf("VERIF-VIOLATION report %d of 3: ready=%v err=%v", i+1, ready, err)
		}
	}
	r, err := impl.GetTaskDropPartitionMsg(ctx, "t", "m")
	if err != nil || len(r) != 1 || !sameSet(r[0].Base.ReadyChannels, tgt) {
		t.Fatalf("VERIF-VIOLATION memory after three reports: %v %v", r, err)
	}
	impl2, _ := meta.NewReplicateMetaImpl(st)
	r, err = impl2.GetTaskDropPartitionMsg(ctx, "t", "m")
	if err != nil || len(r) != 1 || !sameSet(r[0].Base.ReadyChannels, tgt) {
		t.Fatalf("VERIF-VIOLATION reload after three reports: %v %v", r, err)
	}
	if err := impl.RemoveTaskMsg(ctx, "t", "m"); err != nil {
		t.Fatal(err)
	}
	if r, err := impl.GetTaskDropPartitionMsg(ctx, "t", ""); err == nil && len(r) != 0 {
		t.Fatalf("VERIF-VIOLATION removed drop-partition message still in memory: %v", r)
	}
}
