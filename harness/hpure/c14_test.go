package hpure

// C14 — the write batcher delivers every buffered pack exactly once, in order.
//
// Generator: 1..3 Packers sharing the process-global memory budget (limit reset per case through
// the verif hook), thresholds drawn per case, a history of Receive / ClearMsgs / short sleeps with
// packs of 0..3 messages whose serialized size is drawn around the size thresholds, and a callback
// that fails at drawn flushes.
// Oracle (reference model = per-packer list of pending packs):
//   * every callback argument is exactly pending ++ [this pack] (same pointers, same order);
//   * a deterministic trigger (count, size, global memory) forces the flush in that Receive;
//   * the callback's error is what Receive/ClearMsgs return (nil when not called);
//   * after the final ClearMsgs of all packers: concatenation of all deliveries == arrival order;
//   * global counter never negative, and 0 whenever every packer is empty.

import (
	"errors"
	"fmt"
	"testing"
	"time"

	"github.com/milvus-io/milvus-proto/go-api/v2/commonpb"
	"github.com/milvus-io/milvus-proto/go-api/v2/msgpb"
	"github.com/milvus-io/milvus-proto/go-api/v2/schemapb"
	"github.com/milvus-io/milvus/pkg/mq/msgstream"
	"pgregory.net/rapid"

	"github.com/zilliztech/milvus-cdc/core/api"
	"github.com/zilliztech/milvus-cdc/server/msgpacker"

	"verifharness/stats"
)

func sizedInsert(payload int) msgstream.TsMsg {
	return &msgstream.InsertMsg{
		BaseMsg: msgstream.BaseMsg{HashValues: []uint32{0}},
		InsertRequest: &msgpb.InsertRequest{
			Base:           &commonpb.MsgBase{MsgType: commonpb.MsgType_Insert},
			CollectionName: "c",
			NumRows:        1,
			FieldsData: []*schemapb.FieldData{{
				Type: schemapb.DataType_VarChar, FieldName: "f",
				Field: &schemapb.FieldData_Scalars{Scalars: &schemapb.ScalarField{Data: &schemapb.ScalarField_StringData{
					StringData: &schemapb.StringArray{Data: []string{string(make([]byte, payload))}},
				}}},
			}},
		},
	}
}

type c14Packer struct {
	p        *msgpacker.Packer
	maxCount int
	maxSize  int // bytes
	timer    bool
	pending  []*api.ReplicateMsg
	pendingB int
}

func propC14(t *rapid.T) {
	sc := stats.New("C14")
	msgpacker.ResetMemoryForVerif()
	memLimitMB := rapid.SampledFrom([]int{1, 2, 4, 64}).Draw(t, "memLimitKB") // "MB" in config, KB in effect
	n := rapid.IntRange(1, 3).Draw(t, "packers")
	ps := make([]*c14Packer, n)
	for i := range ps {
		cfg := msgpacker.PackerConfig{
			MaxCount:      rapid.IntRange(1, 6).Draw(t, "maxCount"),
			MaxMsgSize:    rapid.SampledFrom([]int{1, 2, 512}).Draw(t, "maxMsgSizeKB"),
			TimerInterval: rapid.SampledFrom([]int{1, 100000000}).Draw(t, "timerMs"),
			MemoryLimit:   memLimitMB,
		}
		ps[i] = &c14Packer{p: msgpacker.NewPacker(cfg), maxCount: cfg.MaxCount, maxSize: cfg.MaxMsgSize * 1024, timer: cfg.TimerInterval == 1}
	}
	memMax := msgpacker.MemoryMaxForVerif()
	if memMax != memLimitMB*1024 {
		t.Fatalf("harness: global limit %d, expected %d", memMax, memLimitMB*1024)
	}

	var arrival, delivered [][]*api.ReplicateMsg = make([][]*api.ReplicateMsg, n), make([][]*api.ReplicateMsg, n)
	triggers := map[string]bool{}
	flushes, errFlushes, rewrites := 0, 0, 0
	var hist []string
	globalPending := func() int {
		s := 0
		for _, p := range ps {
			s += p.pendingB
		}
		return s
	}
	checkCounter := func(when string) {
		cur := msgpacker.MemoryCurrentForVerif()
		if cur < 0 {
			t.Fatalf("global buffered-bytes counter negative (%d) %s", cur, when)
		}
		if globalPending() == 0 {
			allEmpty := true
			for _, p := range ps {
				if len(p.pending) != 0 {
					allEmpty = false
				}
			}
			if allEmpty && cur != 0 {
				t.Fatalf("all batchers empty but global counter = %d %s", cur, when)
			}
		}
	}
	seq := 0
	steps := rapid.IntRange(1, 30).Draw(t, "steps")
	for s := 0; s < steps; s++ {
		i := rapid.IntRange(0, n-1).Draw(t, "which")
		pk := ps[i]
		action := rapid.SampledFrom([]string{"recv", "recv", "recv", "recv", "recv", "clear", "sleep"}).Draw(t, "action")
		switch action {
		case "sleep":
			time.Sleep(2 * time.Millisecond)
			hist = append(hist, "sleep")
			continue
		case "clear", "recv":
		}
		failThis := rapid.IntRange(0, 5).Draw(t, "fail") == 0
		wantErr := fmt.Errorf("callback-error-%d", s)
		called := 0
		var got []*api.ReplicateMsg
		// the production callback (ChannelWriter.HandleReplicateMessage) rewrites the messages in place (replicate info, mapped
		// database / collection names): what a pack measures after the callback differs from what it measured on arrival
		rewrite := rapid.SampledFrom([]string{"", "", "", "grow", "shrink"}).Draw(t, "callbackRewrites")
		cb := func(msgs []*api.ReplicateMsg) error {
			called++
			got = append([]*api.ReplicateMsg(nil), msgs...)
			if rewrite != "" {
				for _, rm := range msgs {
					for _, m := range rm.MsgPack.Msgs {
						if im, ok := m.(*msgstream.InsertMsg); ok {
							if rewrite == "grow" {
								im.InsertRequest.CollectionName = "mapped-collection-name-of-the-downstream-cluster"
								im.InsertRequest.DbName = "mapped-database"
							} else {
								im.InsertRequest.CollectionName = ""
							}
							rewrites++
						}
					}
				}
			}
			if failThis {
				return wantErr
			}
			return nil
		}
		if action == "clear" {
			err := pk.p.ClearMsgs(cb)
			hist = append(hist, fmt.Sprintf("p%d.clear(pending=%d fail=%v)", i, len(pk.pending), failThis))
			if called != 1 {
				t.Fatalf("ClearMsgs invoked the callback %d times", called)
			}
			comparePacks(t, got, pk.pending, "ClearMsgs")
			checkErr(t, err, failThis, wantErr, "ClearMsgs")
			delivered[i] = append(delivered[i], got...)
			pk.pending, pk.pendingB = nil, 0
			triggers["shutdown"] = true
			flushes++
			if failThis {
				errFlushes++
			}
			checkCounter("after ClearMsgs")
			continue
		}
		// receive
		nm := rapid.IntRange(0, 3).Draw(t, "nmsgs")
		pack := &msgstream.MsgPack{}
		size := 0
		for k := 0; k < nm; k++ {
			m := sizedInsert(rapid.SampledFrom([]int{0, 10, 300, 700, 1100, 2500}).Draw(t, "payload"))
			pack.Msgs = append(pack.Msgs, m)
			size += m.Size()
		}
		seq++
		rm := &api.ReplicateMsg{CollectionName: fmt.Sprintf("pack-%d", seq), MsgPack: pack}
		arrival[i] = append(arrival[i], rm)
		before := globalPending()
		err := pk.p.Receive(rm, cb)
		want := append(append([]*api.ReplicateMsg(nil), pk.pending...), rm)
		mustMem := before+size > memMax
		mustSize := size > pk.maxSize
		mustCount := len(want) >= pk.maxCount
		hist = append(hist, fmt.Sprintf("p%d.recv(size=%d pendingAfter=%d called=%d fail=%v mem=%v size=%v count=%v)", i, size, len(want), called, failThis, mustMem, mustSize, mustCount))
		if called > 1 {
			t.Fatalf("Receive invoked the callback %d times", called)
		}
		if called == 0 {
			if mustMem || mustSize || mustCount {
				t.Fatalf("threshold reached (memory=%v size=%v count=%v) but the batch was not delivered; history %v", mustMem, mustSize, mustCount, hist)
			}
			if err != nil {
				t.Fatalf("Receive returned %v without calling the callback", err)
			}
			pk.pending = want
			pk.pendingB += size
		} else {
			comparePacks(t, got, want, "Receive")
			checkErr(t, err, failThis, wantErr, "Receive")
			delivered[i] = append(delivered[i], got...)
			pk.pending, pk.pendingB = nil, 0
			flushes++
			if failThis {
				errFlushes++
			}
			switch {
			case mustMem:
				triggers["memory"] = true
			case mustSize:
				triggers["size"] = true
			case mustCount:
				triggers["count"] = true
			default:
				if !pk.timer {
					t.Fatalf("batch delivered although no threshold was reached and the age threshold is disabled; history %v", hist)
				}
				triggers["age"] = true
			}
		}
		checkCounter("after Receive")
	}
	// shutdown of every channel
	for i, pk := range ps {
		var got []*api.ReplicateMsg
		called := 0
		err := pk.p.ClearMsgs(func(msgs []*api.ReplicateMsg) error { called++; got = append(got, msgs...); return nil })
		if err != nil || called != 1 {
			t.Fatalf("final ClearMsgs: err=%v called=%d", err, called)
		}
		comparePacks(t, got, pk.pending, "final ClearMsgs")
		delivered[i] = append(delivered[i], got...)
		pk.pending, pk.pendingB = nil, 0
		comparePacks(t, delivered[i], arrival[i], "whole history")
	}
	checkCounter("after shutdown")
	if cur := msgpacker.MemoryCurrentForVerif(); cur != 0 {
		t.Fatalf("global counter %d after all batchers were shut down", cur)
	}

	for k := range triggers {
		sc.Class("trigger:" + k)
	}
	sc.ClassIf(errFlushes > 0, "callback-error")
	sc.ClassIf(rewrites > 0, "callback-rewrites-messages-in-place(size changes)")
	sc.ClassIf(n > 1, "shared-memory-budget")
	sc.Count("flushes", flushes)
	sc.NonTrivial(len(triggers) >= 2 && flushes >= 2)
	sc.Fingerprint(hist)
	sc.Sample(map[string]any{"packers": n, "memLimitBytes": memMax, "history": hist})
	sc.Done()
}

func comparePacks(t *rapid.T, got, want []*api.ReplicateMsg, where string) {
	if len(got) != len(want) {
		t.Fatalf("%s: callback got %d packs %v, expected %d %v", where, len(got), names(got), len(want), names(want))
	}
	for i := range got {
		if got[i] != want[i] {
			t.Fatalf("%s: pack %d is %s, expected %s (got %v want %v)", where, i, got[i].CollectionName, want[i].CollectionName, names(got), names(want))
		}
	}
}

func names(ps []*api.ReplicateMsg) []string {
	var r []string
	for _, p := range ps {
		r = append(r, p.CollectionName)
	}
	return r
}

func checkErr(t *rapid.T, err error, failThis bool, wantErr error, where string) {
	if failThis && !errors.Is(err, wantErr) {
		t.Fatalf("%s: callback failed with %v but caller got %v", where, wantErr, err)
	}
	if !failThis && err != nil {
		t.Fatalf("%s: callback succeeded but caller got %v", where, err)
	}
}

func TestC14(t *testing.T) { rapid.Check(t, propC14) }

// TestC14_Replay: deterministic regression inputs (shrunk failures of seeded defects), no library involved.
func TestC14_Replay(t *testing.T) {
	// shrunk from mutant "reset msgs before calling the handler": two receives with MaxCount=2 must deliver both packs.
	msgpacker.ResetMemoryForVerif()
	p := msgpacker.NewPacker(msgpacker.PackerConfig{MaxCount: 2, MaxMsgSize: 512, TimerInterval: 100000000, MemoryLimit: 64})
	a := &api.ReplicateMsg{CollectionName: "a", MsgPack: &msgstream.MsgPack{}}
	b := &api.ReplicateMsg{CollectionName: "b", MsgPack: &msgstream.MsgPack{Msgs: []msgstream.TsMsg{sizedInsert(10)}}}
	var got []*api.ReplicateMsg
	cb := func(m []*api.ReplicateMsg) error { got = append(got, m...); return errors.New("x") }
	if err := p.Receive(a, cb); err != nil || len(got) != 0 {
		t.Fatalf("VERIF-VIOLATION first receive: err=%v got=%v", err, names(got))
	}
	if err := p.Receive(b, cb); err == nil || len(got) != 2 || got[0] != a || got[1] != b {
		t.Fatalf("VERIF-VIOLATION second receive: err=%v got=%v", err, names(got))
	}
	if err := p.ClearMsgs(func(m []*api.ReplicateMsg) error { got = append(got, m...); return nil }); err != nil || len(got) != 2 {
		t.Fatalf("VERIF-VIOLATION shutdown flush re-delivered or failed: err=%v got=%v", err, names(got))
	}
	if c := msgpacker.MemoryCurrentForVerif(); c != 0 {
		t.Fatalf("VERIF-VIOLATION counter %d after everything was delivered", c)
	}
}
