package hpure

import "os"

func tier() string {
	if v := os.Getenv("VERIF_TIER"); v != "" {
		return v
	}
	return "quick"
}

func known(id string) bool {
	for _, k := range splitComma(os.Getenv("VERIF_KNOWN")) {
		if k == id {
			return true
		}
	}
	return false
}

func splitComma(s string) []string {
	var r []string
	cur := ""
	for _, c := range s {
		if c == ',' {
			if cur != "" {
				r = append(r, cur)
			}
			cur = ""
		} else {
			cur += string(c)
		}
	}
	if cur != "" {
		r = append(r, cur)
	}
	return r
}
