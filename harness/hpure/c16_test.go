package hpure

// C16 — channel-count mapping is balanced, total and stable.
//
// Layer 1 (this file): the real util.ChannelMapping driven through the direct-assignment part of the
// protocol the channel manager uses (startReadChannel): a pair whose key is new is assigned iff
// CheckKeyNotExist says the quota allows it, otherwise it stays unassigned (its handler waits); a pair
// whose key is known is never re-assigned. The wait/forward part of the protocol lives in the manager
// and is checked against the real manager in hreader (TestC16_Manager).
//
// Oracle, on public queries only, after every step, over the whole (source x target) universe:
//   function  : every key has at most one value v with CheckKeyExist(key,v)
//   stability : CheckKeyExist(k,v) once true stays true
//   balance   : every value serves at most ceil(max/min) keys (exactly one-to-one for equal counts)
//   totality  : a new key offered with a value whose quota is not exhausted is assigned at once
//               (and is refused when the quota is exhausted)

import (
	"fmt"
	"testing"

	"pgregory.net/rapid"

	"github.com/zilliztech/milvus-cdc/core/util"

	"verifharness/stats"
)

type c16Waiter struct{ source, target string }

type c16Sim struct {
	m        *util.ChannelMapping
	srcN     int
	tgtN     int
	handlers map[string]bool // handler-map keys
	waiters  []*c16Waiter
	fwdCnt   map[string]int
	fwdQueue []string
	seenTrue map[[2]string]bool
	hist     []string
	assigned int
	refused  int
	forwards int
	differs  int
}

func ceilDiv(a, b int) int { return (a + b - 1) / b }

func newC16Sim(s, t int) *c16Sim {
	return &c16Sim{m: util.NewChannelMapping(s, t), srcN: s, tgtN: t, handlers: map[string]bool{}, fwdCnt: map[string]int{}, seenTrue: map[[2]string]bool{}}
}

func (c *c16Sim) quota() int {
	s, t := c.srcN, c.tgtN
	if s == 0 || t == 0 || s == t {
		return 1
	}
	if s > t {
		return ceilDiv(s, t)
	}
	return ceilDiv(t, s)
}

// keyIsSource re-derives from the statement: the larger (or equal) side is the key side.
func (c *c16Sim) keyIsSource() bool {
	if c.srcN == 0 || c.tgtN == 0 {
		return true
	}
	return c.srcN >= c.tgtN
}

func (c *c16Sim) universe(n int, pfx string) []string {
	if n == 0 {
		n = 3
	}
	r := make([]string, n)
	for i := range r {
		r[i] = fmt.Sprintf("%s%d", pfx, i)
	}
	return r
}

// load = number of keys currently assigned to the value of pair (s,t), by public queries.
func (c *c16Sim) load(s, t string) int {
	n := 0
	if c.keyIsSource() {
		for _, k := range c.universe(c.srcN, "s") {
			if c.m.CheckKeyExist(k, t) {
				n++
			}
		}
	} else {
		for _, k := range c.universe(c.tgtN, "t") {
			if c.m.CheckKeyExist(s, k) {
				n++
			}
		}
	}
	return n
}

func (c *c16Sim) deliver(v string, pick func(n int) int, fail func(string, ...any)) {
	if len(c.waiters) == 0 {
		c.fwdQueue = append(c.fwdQueue, v)
		return
	}
	i := pick(len(c.waiters))
	w := c.waiters[i]
	var repeated bool
	if c.m.UsingSourceKey() {
		repeated = c.m.CheckKeyExist(w.source, v)
	} else {
		repeated = c.m.CheckKeyExist(v, w.target)
	}
	if repeated {
		c.hist = append(c.hist, fmt.Sprintf("fwd %s->waiter(%s,%s) repeated", v, w.source, w.target))
		return
	}
	if c.m.UsingSourceKey() {
		w.target = v
	} else {
		w.source = v
	}
	c.fwdCnt[v]++
	c.m.AddKeyValue(w.source, w.target)
	c.waiters = append(c.waiters[:i], c.waiters[i+1:]...)
	c.hist = append(c.hist, fmt.Sprintf("fwd %s->assigned(%s,%s)", v, w.source, w.target))
	c.forwards++
}

func (c *c16Sim) offer(s, t string, pick func(n int) int, fail func(string, ...any)) {
	key, val := c.m.GetMapKey(s, t), c.m.GetMapValue(s, t)
	wantKey := t
	if c.keyIsSource() {
		wantKey = s
	}
	if key != wantKey {
		fail("GetMapKey(%s,%s)=%s but the larger side is the key side (%s)", s, t, key, wantKey)
	}
	if !c.handlers[key] {
		load := c.load(s, t)
		ok := c.m.CheckKeyNotExist(s, t)
		if ok != (load < c.quota()) {
			fail("offer(%s,%s): value already serves %d keys, quota %d, but CheckKeyNotExist=%v; history %v", s, t, load, c.quota(), ok, c.hist)
		}
		if ok {
			c.fwdCnt[val]++
			c.m.AddKeyValue(s, t)
			c.assigned++
			c.hist = append(c.hist, fmt.Sprintf("offer(%s,%s) assigned", s, t))
			if !c.m.CheckKeyExist(s, t) {
				fail("offer(%s,%s) was assigned but CheckKeyExist is false", s, t)
			}
		} else {
			c.refused++
			c.waiters = append(c.waiters, &c16Waiter{s, t})
			c.hist = append(c.hist, fmt.Sprintf("offer(%s,%s) waits", s, t))
		}
		c.handlers[key] = true
		return
	}
	if !c.m.CheckKeyExist(s, t) {
		_ = val
		c.differs++
		c.hist = append(c.hist, fmt.Sprintf("offer(%s,%s) differs from the assignment, ignored", s, t))
	} else {
		c.hist = append(c.hist, fmt.Sprintf("offer(%s,%s) known", s, t))
	}
}

func (c *c16Sim) invariants(fail func(string, ...any)) {
	srcs, tgts := c.universe(c.srcN, "s"), c.universe(c.tgtN, "t")
	if c.m.AverageCnt() != c.quota() {
		fail("AverageCnt()=%d, expected ceil(larger/smaller)=%d for counts (%d,%d)", c.m.AverageCnt(), c.quota(), c.srcN, c.tgtN)
	}
	perKey := map[string]int{}
	perVal := map[string]int{}
	now := map[[2]string]bool{}
	for _, s := range srcs {
		for _, t := range tgts {
			if c.m.CheckKeyExist(s, t) {
				now[[2]string{s, t}] = true
				k, v := s, t
				if !c.keyIsSource() {
					k, v = t, s
				}
				perKey[k]++
				perVal[v]++
			}
		}
	}
	for p := range c.seenTrue {
		if !now[p] {
			fail("assignment %v changed after it was made; history %v", p, c.hist)
		}
	}
	for p := range now {
		c.seenTrue[p] = true
	}
	for k, n := range perKey {
		if n > 1 {
			fail("key %s is assigned to %d values; history %v", k, n, c.hist)
		}
	}
	for v, n := range perVal {
		if n > c.quota() {
			fail("value %s serves %d keys, quota ceil(%d/%d)=%d; history %v", v, n, c.srcN, c.tgtN, c.quota(), c.hist)
		}
	}
}

func propC16(t *rapid.T) {
	sc := stats.New("C16")
	s := rapid.IntRange(0, 6).Draw(t, "sourceCnt")
	d := rapid.IntRange(0, 6).Draw(t, "targetCnt")
	sim := newC16Sim(s, d)
	srcs, tgts := sim.universe(sim.srcN, "s"), sim.universe(sim.tgtN, "t")
	if s == 0 || d == 0 {
		sim.srcN, sim.tgtN = 0, 0
		srcs, tgts = sim.universe(0, "s"), sim.universe(0, "t")
	}
	n := rapid.IntRange(1, 24).Draw(t, "offers")
	fail := func(f string, a ...any) { t.Fatalf(f, a...) }
	pick := func(n int) int { return rapid.IntRange(0, n-1).Draw(t, "waiter") }
	for i := 0; i < n; i++ {
		a := rapid.SampledFrom(srcs).Draw(t, "src")
		b := rapid.SampledFrom(tgts).Draw(t, "tgt")
		sim.offer(a, b, pick, fail)
		sim.invariants(fail)
	}
	sc.ClassIf(s == d, "equal-counts")
	sc.ClassIf(s > d && d > 0, "source-more")
	sc.ClassIf(s < d && s > 0, "target-more")
	sc.ClassIf(s == 0 || d == 0, "unconfigured")
	sc.ClassIf(sim.refused > 0, "quota-refusal")
	sc.ClassIf(sim.differs > 0, "re-offer-with-other-value")
	sc.Count("assigned", sim.assigned+sim.forwards)
	sc.NonTrivial(sim.refused > 0 && sim.assigned >= 2)
	sc.Fingerprint(fmt.Sprint(s, d, sim.hist))
	sc.Sample(map[string]any{"sourceCnt": s, "targetCnt": d, "history": sim.hist})
	sc.Done()
}

func TestC16(t *testing.T) { rapid.Check(t, propC16) }

// TestC16_Exhaustive enumerates every offer sequence up to a length bound for all counts (s,t) in 1..3 x 1..3.
func TestC16_Exhaustive(t *testing.T) {
	maxLen := 5
	if tier() == "thorough" {
		maxLen = 6
	}
	total := 0
	for s := 1; s <= 3; s++ {
		for d := 1; d <= 3; d++ {
			var pairs [][2]string
			for i := 0; i < s; i++ {
				for j := 0; j < d; j++ {
					pairs = append(pairs, [2]string{fmt.Sprintf("s%d", i), fmt.Sprintf("t%d", j)})
				}
			}
			idx := make([]int, maxLen)
			for {
				sc := stats.New("C16")
				sim := newC16Sim(s, d)
				fail := func(f string, a ...any) {
					t.Fatalf("VERIF-VIOLATION counts (%d,%d) sequence %v: %s", s, d, idx, fmt.Sprintf(f, a...))
				}
				for _, k := range idx {
					sim.offer(pairs[k][0], pairs[k][1], func(int) int { return 0 }, fail)
					sim.invariants(fail)
				}
				total++
				sc.Class("exhaustive")
				sc.ClassIf(sim.refused > 0, "quota-refusal")
				sc.ClassIf(sim.differs > 0, "re-offer-with-other-value")
				sc.NonTrivial(sim.refused > 0 && sim.assigned >= 2)
				sc.Fingerprint(fmt.Sprint("X", s, d, idx))
				sc.Sample(map[string]any{"sourceCnt": s, "targetCnt": d, "history": sim.hist, "mode": "exhaustive"})
				sc.Done()
				// next sequence
				p := maxLen - 1
				for p >= 0 {
					idx[p]++
					if idx[p] < len(pairs) {
						break
					}
					idx[p] = 0
					p--
				}
				if p < 0 {
					break
				}
			}
		}
	}
	stats.Exhaustive("C16")
	stats.Note("C16", fmt.Sprintf("exhaustive part: all %d offer sequences of length %d over counts 1..3 x 1..3 (shorter sequences are prefixes); waiter choice fixed to the oldest", total, maxLen))
}

func TestC16_Replay(t *testing.T) {
	// shrunk from mutant "quota <=": 2 sources, 1... ; and from mutant "overwrite on second offer"
	fail := func(f string, a ...any) { t.Fatalf("VERIF-VIOLATION "+f, a...) }
	for _, c := range []struct {
		s, d int
		seq  [][2]string
	}{
		{3, 2, [][2]string{{"s0", "t0"}, {"s1", "t0"}, {"s2", "t0"}}},
		{2, 2, [][2]string{{"s0", "t0"}, {"s1", "t0"}, {"s0", "t1"}}},
		{1, 3, [][2]string{{"s0", "t0"}, {"s0", "t1"}, {"s0", "t2"}, {"s0", "t0"}}},
	} {
		sim := newC16Sim(c.s, c.d)
		for _, p := range c.seq {
			sim.offer(p[0], p[1], func(int) int { return 0 }, fail)
			sim.invariants(fail)
		}
	}
}
