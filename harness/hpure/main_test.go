package hpure

import (
	"os"
	"testing"

	"verifharness/stats"

	"github.com/zilliztech/milvus-cdc/core/log"
	"go.uber.org/zap/zapcore"
)

func TestMain(m *testing.M) {
	log.SetLevel(zapcore.FatalLevel)
	_ = os.Setenv("VERIF_PKG", "hpure")
	stats.Main(m.Run)
}
