// Package quiesce decides "nothing more will happen" without a wall-clock verdict: the code under test is
// quiescent when every goroutine that has a milvus-cdc frame on its stack is parked on a channel operation
// (receive / send / select without a pending timer loop of the retry helper) in two consecutive snapshots
// between which an observation counter supplied by the caller did not change.
package quiesce

import (
	"regexp"
	"runtime"
	"strings"
	"sync"
	"time"
)

var header = regexp.MustCompile(`^goroutine (\d+) \[([^\],]+)(?:, [^\]]*)?\]:`)

// leftovers: goroutines of the code under test that existed when the current case began (see SetBaseline).
var (
	leftMu    sync.Mutex
	leftovers = map[string]bool{}
)

// SetBaseline is called at the start of a case, before its world is built. Goroutines of the code under test that exist at
// that moment belong to earlier cases of the same process (a case that failed is torn down abruptly and may leave goroutines
// blocked for good, e.g. on a mutex held by a producer whose consumer is gone) or to process-wide services; they cannot
// touch the fresh world of the new case and are ignored by the detectors. Without this, one failing case made every later
// case of the process (rapid's shrinking!) wait for the full cap.
func SetBaseline() {
	buf := make([]byte, 1<<20)
	for {
		n := runtime.Stack(buf, true)
		if n < len(buf) {
			buf = buf[:n]
			break
		}
		buf = make([]byte, 2*len(buf))
	}
	set := map[string]bool{}
	for _, g := range strings.Split(string(buf), "\n\n") {
		if m := header.FindStringSubmatch(g); m != nil && strings.Contains(g, "github.com/zilliztech/milvus-cdc/") {
			set[m[1]] = true
		}
	}
	leftMu.Lock()
	leftovers = set
	leftMu.Unlock()
}

func isLeftover(id string) bool {
	leftMu.Lock()
	defer leftMu.Unlock()
	return leftovers[id]
}

// Busy returns a description of one goroutine of the code under test that is not parked, or "".
func Busy() string {
	buf := make([]byte, 1<<20)
	for {
		n := runtime.Stack(buf, true)
		if n < len(buf) {
			buf = buf[:n]
			break
		}
		buf = make([]byte, 2*len(buf))
	}
	for _, g := range strings.Split(string(buf), "\n\n") {
		m := header.FindStringSubmatch(g)
		if m == nil {
			continue
		}
		if !strings.Contains(g, "github.com/zilliztech/milvus-cdc/") || isLeftover(m[1]) {
			continue
		}
		if strings.Contains(g, "verifharness/quiesce.Busy") {
			continue // the caller itself
		}
		state := m[2]
		parked := state == "chan receive" || state == "select" || state == "chan send" || state == "select (no cases)" ||
			state == "IO wait" || state == "sync.Cond.Wait" || state == "chan receive (nil chan)" || state == "chan send (nil chan)"
		if !parked {
			return "goroutine " + m[1] + " [" + state + "]: " + firstCDCFrame(g)
		}
		// parked on a timer of a retry / sleep loop: it will wake up by itself
		if strings.Contains(g, "util/retry.Do") || strings.Contains(g, "util/retry.Handle") || strings.Contains(g, "time.Sleep") {
			return "goroutine " + m[1] + " [" + state + " in retry]: " + firstCDCFrame(g)
		}
	}
	return ""
}

func firstCDCFrame(g string) string {
	for _, l := range strings.Split(g, "\n") {
		if strings.Contains(l, "github.com/zilliztech/milvus-cdc/") {
			return strings.TrimSpace(l)
		}
	}
	return ""
}

// Wait blocks until the code under test is quiescent (see package comment) or the cap expires.
// counter must return a value that changes whenever the harness observes new output.
// It returns ("", true) when quiescent, else the last busy description.
func Wait(counter func() int, cap time.Duration) (string, bool) {
	deadline := time.Now().Add(cap)
	last := -1
	quiet := 0
	busy := ""
	for time.Now().Before(deadline) {
		c := counter()
		busy = Busy()
		if busy == "" && c == last {
			quiet++
			if quiet >= 2 {
				return "", true
			}
		} else {
			quiet = 0
		}
		last = c
		if busy != "" {
			time.Sleep(2 * time.Millisecond)
		} else {
			runtime.Gosched()
			time.Sleep(300 * time.Microsecond)
		}
	}
	return busy, false
}

// Dump returns a compact listing (state + first milvus-cdc frames) of every goroutine of the code under test.
func Dump() string {
	buf := make([]byte, 4<<20)
	n := runtime.Stack(buf, true)
	var sb strings.Builder
	for _, g := range strings.Split(string(buf[:n]), "\n\n") {
		m := header.FindStringSubmatch(g)
		if m == nil || !strings.Contains(g, "github.com/zilliztech/milvus-cdc/") {
			continue
		}
		sb.WriteString("goroutine " + m[1] + " [" + m[2] + "]")
		k := 0
		for _, l := range strings.Split(g, "\n") {
			if strings.Contains(l, "github.com/zilliztech/milvus-cdc/") && !strings.HasPrefix(l, "\t") {
				sb.WriteString(" <- " + strings.TrimSpace(l[strings.LastIndex(l, "/")+1:]))
				k++
				if k >= 4 {
					break
				}
			}
		}
		sb.WriteString("\n")
	}
	return sb.String()
}

// snapshot returns one line per goroutine of the code under test ("id state first-frame") and whether one of them is active
// (running, runnable, sleeping, in a syscall, or parked on a timer of a retry loop).
func snapshot() (lines []string, active string) {
	buf := make([]byte, 1<<20)
	for {
		n := runtime.Stack(buf, true)
		if n < len(buf) {
			buf = buf[:n]
			break
		}
		buf = make([]byte, 2*len(buf))
	}
	for _, g := range strings.Split(string(buf), "\n\n") {
		m := header.FindStringSubmatch(g)
		if m == nil || !strings.Contains(g, "github.com/zilliztech/milvus-cdc/") || strings.Contains(g, "verifharness/quiesce.") || isLeftover(m[1]) {
			continue
		}
		state := m[2]
		line := m[1] + " " + state + " " + firstCDCFrame(g)
		lines = append(lines, line)
		switch state {
		case "running", "runnable", "sleep", "syscall":
			active = line
		default:
			if strings.Contains(g, "util/retry.Do") || strings.Contains(g, "util/retry.Handle") || strings.Contains(g, "time.Sleep") {
				active = line
			}
		}
	}
	return lines, active
}

// WaitStable is Wait for code that may be blocked for good: goroutines waiting for a mutex or semaphore count as at rest when
// the complete picture (every goroutine of the code under test with its state, and the observation counter) stays identical
// over five samples 60 ms apart and nothing is running, sleeping or retrying.
func WaitStable(counter func() int, cap time.Duration) (string, bool) {
	deadline := time.Now().Add(cap)
	last, same := "", 0
	busy := ""
	for time.Now().Before(deadline) {
		lines, active := snapshot()
		cur := strings.Join(lines, "\n") + "#" + time.Duration(counter()).String()
		if active == "" && cur == last {
			same++
			if same >= 5 {
				return "", true
			}
		} else {
			same = 0
		}
		last, busy = cur, active
		time.Sleep(60 * time.Millisecond)
	}
	if busy == "" {
		busy = "goroutine set keeps changing"
	}
	return busy, false
}
