package hstore

import (
	"os"
	"strings"
	"testing"

	"go.uber.org/zap/zapcore"

	"github.com/zilliztech/milvus-cdc/core/log"

	"verifharness/fakes/etcdsrv"
	"verifharness/stats"
)

func TestMain(m *testing.M) {
	log.SetLevel(zapcore.FatalLevel)
	stats.Main(func() int {
		code := m.Run()
		etcdsrv.Stop()
		return code
	})
}

func known(id string) bool {
	for _, k := range strings.Split(os.Getenv("VERIF_KNOWN"), ",") {
		if k == id {
			return true
		}
	}
	return false
}
