package hstore

// C12 — metadata records are isolated per tenant (root path), task, collection and channel.
//
// Both backends behind api.MetaStoreFactory: the real EtcdMetaStore on an embedded etcd server, and the real
// MySQLMetaStore / MySQLReplicateStore SQL on the fake SQL engine. 2..3 factories with different root paths share
// one backend. A Go map keyed (root, kind, task, collection) is the reference model; after EVERY operation the full
// content of the backend must equal the model, which gives non-interference for every pair of records at once.

import (
	"context"
	"encoding/json"
	"fmt"
	"sort"
	"strings"
	"sync/atomic"
	"testing"
	"time"

	clientv3 "go.etcd.io/etcd/client/v3"
	"pgregory.net/rapid"

	"github.com/milvus-io/milvus-proto/go-api/v2/commonpb"

	coreapi "github.com/zilliztech/milvus-cdc/core/api"
	"github.com/zilliztech/milvus-cdc/server/api"
	"github.com/zilliztech/milvus-cdc/server/model/meta"
	"github.com/zilliztech/milvus-cdc/server/store"

	"verifharness/fakes/etcdsrv"
	"verifharness/fakes/sqlfake"
	"verifharness/stats"
)

var caseSeq int64

type posModel struct {
	name      string
	positions map[string]*meta.PositionInfo
	op        map[string]*meta.PositionInfo
	target    map[string]*meta.PositionInfo
}

type rootModel struct {
	tasks map[string]*meta.TaskInfo  // task -> info
	pos   map[string]*posModel       // task + "\x00" + coll -> positions
	msgs  map[string]coreapi.MetaMsg // replicate-store key -> msg
}

func newRootModel() *rootModel {
	return &rootModel{tasks: map[string]*meta.TaskInfo{}, pos: map[string]*posModel{}, msgs: map[string]coreapi.MetaMsg{}}
}

func pkey(task string, coll int64) string { return fmt.Sprintf("%s\x00%d", task, coll) }

func clonePI(p *meta.PositionInfo) *meta.PositionInfo {
	if p == nil {
		return nil
	}
	c := *p
	if p.DataPair != nil {
		c.DataPair = &commonpb.KeyDataPair{Key: p.DataPair.Key, Data: append([]byte(nil), p.DataPair.Data...)}
	}
	return &c
}

func piString(m map[string]*meta.PositionInfo) string {
	var ks []string
	for k := range m {
		ks = append(ks, k)
	}
	sort.Strings(ks)
	var sb strings.Builder
	for _, k := range ks {
		p := m[k]
		fmt.Fprintf(&sb, "%s:{t=%d st=%d key=%s data=%s dropped=%v}", k, p.Time, p.StartTime, p.DataPair.GetKey(), p.DataPair.GetData(), p.Dropped)
	}
	return sb.String()
}

// dumpModel renders the model of all roots in a canonical form.
func dumpModel(roots []string, ms map[string]*rootModel) []string {
	var out []string
	for _, r := range roots {
		m := ms[r]
		for t, info := range m.tasks {
			out = append(out, fmt.Sprintf("info|%s|%s|state=%d reason=%s", r, t, info.State, info.Reason))
		}
		for k, p := range m.pos {
			out = append(out, fmt.Sprintf("pos|%s|%s|name=%s P[%s] O[%s] T[%s]", r, strings.ReplaceAll(k, "\x00", "/"), p.name, piString(p.positions), piString(p.op), piString(p.target)))
		}
		for k, msg := range m.msgs {
			out = append(out, fmt.Sprintf("msg|%s|%s|task=%s id=%s ready=%v", r, k, msg.Base.TaskID, msg.Base.MsgID, msg.Base.ReadyChannels))
		}
	}
	sort.Strings(out)
	return out
}

type backend interface {
	factory(root string) (api.MetaStoreFactory, error)
	dump(roots []string) ([]string, error) // canonical form like dumpModel; unknown keys are reported verbatim
	close()
}

// ---- etcd backend

type etcdBackend struct {
	base string // unique prefix per case so that cases do not see each other
	cli  *clientv3.Client
	made []api.MetaStoreFactory
}

func (b *etcdBackend) factory(root string) (api.MetaStoreFactory, error) {
	ep, err := etcdsrv.Endpoint()
	if err != nil {
		return nil, err
	}
	f, err := store.NewEtcdMetaStoreWithAddress(context.Background(), []string{ep}, b.base+root)
	if err == nil {
		b.made = append(b.made, f)
	}
	return f, err
}

// close releases the etcd clients of the stores of this case (the stores themselves have no Close)
func (b *etcdBackend) close() {
	for _, f := range b.made {
		etcdsrv.CloseClientsOf(f)
	}
	b.made = nil
}

func (b *etcdBackend) dump(roots []string) ([]string, error) {
	ctx, cancel := context.WithTimeout(context.Background(), 10*time.Second)
	defer cancel()
	resp, err := b.cli.Get(ctx, b.base, clientv3.WithPrefix())
	if err != nil {
		return nil, err
	}
	var out []string
	// the etcd replicate store of NewEtcdMetaStoreWithAddress lives outside the meta store's root path
	resp2, err := b.cli.Get(ctx, "/task_msg/", clientv3.WithPrefix())
	if err != nil {
		return nil, err
	}
	kvs := append(resp.Kvs, resp2.Kvs...)
	for _, kv := range kvs {
		key := string(kv.Key)
		line := ""
		// longest root first so that "cdc/sub" is not mistaken for "cdc"
		rs := append([]string(nil), roots...)
		sort.Slice(rs, func(i, j int) bool { return len(rs[i]) > len(rs[j]) })
		for _, r := range rs {
			pfx := b.base + r + "/"
			if !strings.HasPrefix(key, pfx) {
				continue
			}
			rest := key[len(pfx):]
			switch {
			case strings.HasPrefix(rest, "task_info/"):
				var info meta.TaskInfo
				if err := json.Unmarshal(kv.Value, &info); err != nil {
					return nil, err
				}
				line = fmt.Sprintf("info|%s|%s|state=%d reason=%s", r, rest[len("task_info/"):], info.State, info.Reason)
			case strings.HasPrefix(rest, "task_position/"):
				var p meta.TaskCollectionPosition
				if err := json.Unmarshal(kv.Value, &p); err != nil {
					return nil, err
				}
				line = fmt.Sprintf("pos|%s|%s|name=%s P[%s] O[%s] T[%s]", r, rest[len("task_position/"):], p.CollectionName, piString(p.Positions), piString(p.OpPositions), piString(p.TargetPositions))
			case strings.HasPrefix(rest, "task_msg/"):
				var m coreapi.MetaMsg
				if err := json.Unmarshal(kv.Value, &m); err != nil {
					return nil, err
				}
				line = fmt.Sprintf("msg|%s|%s|task=%s id=%s ready=%v", r, rest, m.Base.TaskID, m.Base.MsgID, m.Base.ReadyChannels)
			}
			if line != "" {
				break
			}
		}
		if line == "" {
			line = "foreign|" + key + "|" + string(kv.Value)
		}
		out = append(out, line)
	}
	sort.Strings(out)
	return out, nil
}

// ---- sql backend

type sqlBackend struct {
	name string
	eng  *sqlfake.Engine
}

func (b *sqlBackend) factory(root string) (api.MetaStoreFactory, error) {
	db, eng := sqlfake.Open(b.name)
	b.eng = eng
	return store.NewMySQLMetaStoreFromDBForVerif(context.Background(), db, root)
}

func (b *sqlBackend) close() { sqlfake.Drop(b.name) }

func (b *sqlBackend) dump(roots []string) ([]string, error) {
	var out []string
	rs := append([]string(nil), roots...)
	sort.Slice(rs, func(i, j int) bool { return len(rs[i]) > len(rs[j]) })
	rootOf := func(key, marker string) (string, string) {
		for _, r := range rs {
			if strings.HasPrefix(key, r+"/"+marker) {
				return r, key[len(r)+1:]
			}
		}
		return "", key
	}
	for key, r := range b.eng.Rows("task_info") {
		root, rest := rootOf(key, "task_info/")
		var info meta.TaskInfo
		if err := json.Unmarshal([]byte(fmt.Sprint(r["task_info_value"])), &info); err != nil {
			return nil, err
		}
		if root == "" || fmt.Sprint(r["task_id"]) != rest[len("task_info/"):] {
			out = append(out, "foreign|task_info|"+key)
			continue
		}
		out = append(out, fmt.Sprintf("info|%s|%s|state=%d reason=%s", root, rest[len("task_info/"):], info.State, info.Reason))
	}
	for key, r := range b.eng.Rows("task_position") {
		root, rest := rootOf(key, "task_position/")
		dec := func(col string) map[string]*meta.PositionInfo {
			m := map[string]*meta.PositionInfo{}
			_ = json.Unmarshal([]byte(fmt.Sprint(r[col])), &m)
			return m
		}
		if root == "" {
			out = append(out, "foreign|task_position|"+key)
			continue
		}
		out = append(out, fmt.Sprintf("pos|%s|%s|name=%v P[%s] O[%s] T[%s]", root, rest[len("task_position/"):], r["collection_name"], piString(dec("task_position_value")), piString(dec("op_position_value")), piString(dec("target_position_value"))))
	}
	for key, r := range b.eng.Rows("task_msg") {
		root, rest := rootOf(key, "task_msg/")
		var m coreapi.MetaMsg
		if err := json.Unmarshal([]byte(fmt.Sprint(r["task_msg_value"])), &m); err != nil {
			return nil, err
		}
		if root == "" {
			out = append(out, "foreign|task_msg|"+key)
			continue
		}
		out = append(out, fmt.Sprintf("msg|%s|%s|task=%s id=%s ready=%v", root, rest, m.Base.TaskID, m.Base.MsgID, m.Base.ReadyChannels))
	}
	sort.Strings(out)
	return out, nil
}

// ---- fault-injecting factory decorator (fails the k-th store call of the operation under test)

type faultFactory struct {
	api.MetaStoreFactory
	n      *int
	failAt int
}

var errInjected = fmt.Errorf("injected store failure")

func (f *faultFactory) hit() error {
	*f.n++
	if *f.n == f.failAt {
		return errInjected
	}
	return nil
}

type faultStore[M any] struct {
	api.MetaStore[M]
	f *faultFactory
}

func (s faultStore[M]) Put(ctx context.Context, m M, txn any) error {
	if err := s.f.hit(); err != nil {
		return err
	}
	return s.MetaStore.Put(ctx, m, txn)
}

func (s faultStore[M]) Get(ctx context.Context, m M, txn any) ([]M, error) {
	if err := s.f.hit(); err != nil {
		return nil, err
	}
	return s.MetaStore.Get(ctx, m, txn)
}

func (s faultStore[M]) Delete(ctx context.Context, m M, txn any) error {
	if err := s.f.hit(); err != nil {
		return err
	}
	return s.MetaStore.Delete(ctx, m, txn)
}

func (f *faultFactory) GetTaskInfoMetaStore(ctx context.Context) api.MetaStore[*meta.TaskInfo] {
	return faultStore[*meta.TaskInfo]{f.MetaStoreFactory.GetTaskInfoMetaStore(ctx), f}
}

func (f *faultFactory) GetTaskCollectionPositionMetaStore(ctx context.Context) api.MetaStore[*meta.TaskCollectionPosition] {
	return faultStore[*meta.TaskCollectionPosition]{f.MetaStoreFactory.GetTaskCollectionPositionMetaStore(ctx), f}
}

func (f *faultFactory) Txn(ctx context.Context) (any, func(err error) error, error) {
	if err := f.hit(); err != nil {
		return nil, nil, err
	}
	t, commit, err := f.MetaStoreFactory.Txn(ctx)
	if err != nil {
		return t, commit, err
	}
	return t, func(e error) error {
		if e == nil {
			if herr := f.hit(); herr != nil {
				_ = commit(herr) // the commit itself fails: nothing may be applied
				return herr
			}
		}
		return commit(e)
	}, nil
}

func eqLines(a, b []string) bool {
	if len(a) != len(b) {
		return false
	}
	for i := range a {
		if a[i] != b[i] {
			return false
		}
	}
	return true
}

func diffLines(got, want []string) string {
	g, w := map[string]bool{}, map[string]bool{}
	for _, l := range got {
		g[l] = true
	}
	for _, l := range want {
		w[l] = true
	}
	var sb strings.Builder
	for _, l := range got {
		if !w[l] {
			sb.WriteString("  backend has: " + l + "\n")
		}
	}
	for _, l := range want {
		if !g[l] {
			sb.WriteString("  model has:   " + l + "\n")
		}
	}
	return sb.String()
}

func propC12(t *rapid.T, kind string) {
	sc := stats.New("C12")
	ctx := context.Background()
	id := atomic.AddInt64(&caseSeq, 1)
	var be backend
	if kind == "etcd" {
		cli, err := etcdsrv.Client()
		if err != nil {
			t.Fatalf("VERIF-TROUBLE etcd: %v", err)
		}
		defer cli.Close()
		be = &etcdBackend{base: fmt.Sprintf("case%d-%d/", time.Now().UnixNano(), id), cli: cli}
		// the shared replicate-store prefix must start empty
		_, _ = cli.Delete(ctx, "/task_msg/", clientv3.WithPrefix())
	} else {
		be = &sqlBackend{name: fmt.Sprintf("case%d-%d", time.Now().UnixNano(), id)}
	}
	defer be.close()
	allRoots := []string{"cdc", "cdc2", "cdc_", "cd%", "cdc/sub"}
	nr := rapid.IntRange(2, 3).Draw(t, "roots")
	roots := rapid.Permutation(allRoots).Draw(t, "rootChoice")[:nr]
	facts := map[string]api.MetaStoreFactory{}
	models := map[string]*rootModel{}
	for _, r := range roots {
		f, err := be.factory(r)
		if err != nil {
			t.Fatalf("VERIF-TROUBLE factory(%s): %v", r, err)
		}
		facts[r] = f
		models[r] = newRootModel()
	}
	tasks := []string{"t", "t1", "t10", "t_", "t%"}
	colls := []int64{1, 10, 100, -1, -10}
	chans := []string{"c", "c1"}
	var hist []string
	related := false
	usedTasks, usedRoots := map[string]bool{}, map[string]bool{}
	check := func(when string) {
		got, err := be.dump(roots)
		if err != nil {
			t.Fatalf("VERIF-TROUBLE dump: %v", err)
		}
		want := dumpModel(roots, models)
		if !eqLines(got, want) {
			t.Fatalf("%s backend after %s differs from the model:\n%shistory: %v", kind, when, diffLines(got, want), hist)
		}
	}
	steps := rapid.IntRange(1, 14).Draw(t, "steps")
	faults, multi := 0, 0
	for s := 0; s < steps; s++ {
		r := rapid.SampledFrom(roots).Draw(t, "root")
		f, m := facts[r], models[r]
		task := rapid.SampledFrom(tasks).Draw(t, "task")
		coll := rapid.SampledFrom(colls).Draw(t, "coll")
		ch := rapid.SampledFrom(chans).Draw(t, "chan")
		for ot := range usedTasks {
			if ot != task && (strings.HasPrefix(ot, task) || strings.HasPrefix(task, ot) || strings.ContainsAny(task, "_%") || strings.ContainsAny(ot, "_%")) {
				related = true
			}
		}
		for or := range usedRoots {
			if or != r {
				related = true
			}
		}
		usedTasks[task], usedRoots[r] = true, true
		op := rapid.SampledFrom([]string{"putTask", "putTask", "updateState", "getTask", "listTasks", "updatePos", "updatePos", "updatePos", "dropState", "getPos", "deletePos", "deleteTask", "deleteTask", "msgPut", "msgGet", "msgRemove"}).Draw(t, "op")
		desc := fmt.Sprintf("%s@%s(%s,%d,%s)", op, r, task, coll, ch)
		hist = append(hist, desc)
		switch op {
		case "putTask":
			info := &meta.TaskInfo{TaskID: task, State: meta.TaskStateInitial, Reason: fmt.Sprintf("r%d", s)}
			if err := f.GetTaskInfoMetaStore(ctx).Put(ctx, info, nil); err != nil {
				t.Fatalf("VERIF-TROUBLE %s: %v", desc, err)
			}
			c := *info
			m.tasks[task] = &c
		case "updateState":
			ns := meta.TaskState(rapid.IntRange(0, 2).Draw(t, "state"))
			err := store.UpdateTaskState(f.GetTaskInfoMetaStore(ctx), task, ns, nil, fmt.Sprintf("u%d", s))
			if cur := m.tasks[task]; cur != nil {
				if err != nil {
					t.Fatalf("%s failed although the task exists under this root: %v; history %v", desc, err, hist)
				}
				cur.State, cur.Reason = ns, fmt.Sprintf("u%d", s)
			} else if err == nil {
				t.Fatalf("%s succeeded although this root has no such task (it updated a record of another tenant or task); history %v", desc, hist)
			}
		case "getTask":
			got, err := f.GetTaskInfoMetaStore(ctx).Get(ctx, &meta.TaskInfo{TaskID: task}, nil)
			if err != nil {
				t.Fatalf("VERIF-TROUBLE %s: %v", desc, err)
			}
			want := 0
			if m.tasks[task] != nil {
				want = 1
			}
			if len(got) != want || (want == 1 && (got[0].TaskID != task || got[0].State != m.tasks[task].State || got[0].Reason != m.tasks[task].Reason)) {
				t.Fatalf("%s returned %d records %v, this root holds %d; history %v", desc, len(got), taskIDs(got), want, hist)
			}
		case "listTasks":
			got, err := f.GetTaskInfoMetaStore(ctx).Get(ctx, &meta.TaskInfo{}, nil)
			if err != nil {
				t.Fatalf("VERIF-TROUBLE %s: %v", desc, err)
			}
			var want []string
			for k := range m.tasks {
				want = append(want, k)
			}
			sort.Strings(want)
			g := taskIDs(got)
			sort.Strings(g)
			if !eqLines(g, want) {
				t.Fatalf("%s listed %v, this root holds %v; history %v", desc, g, want, hist)
			}
		case "updatePos":
			pi := &meta.PositionInfo{Time: int64(1000 + s), DataPair: &commonpb.KeyDataPair{Key: ch, Data: []byte(fmt.Sprintf("d%d", s))}}
			var op, tp *meta.PositionInfo
			if rapid.Bool().Draw(t, "withOp") {
				op = clonePI(pi)
			}
			if rapid.Bool().Draw(t, "withTarget") {
				tp = &meta.PositionInfo{Time: int64(1000 + s), DataPair: &commonpb.KeyDataPair{Key: "tgt-" + ch, Data: []byte(fmt.Sprintf("t%d", s))}}
			}
			name := fmt.Sprintf("coll%d", coll)
			if err := store.UpdateTaskCollectionPosition(f.GetTaskCollectionPositionMetaStore(ctx), task, coll, name, ch, clonePI(pi), clonePI(op), clonePI(tp)); err != nil {
				t.Fatalf("VERIF-TROUBLE %s: %v", desc, err)
			}
			pm := m.pos[pkey(task, coll)]
			if pm == nil {
				pm = &posModel{name: name, positions: map[string]*meta.PositionInfo{}, op: map[string]*meta.PositionInfo{}, target: map[string]*meta.PositionInfo{}}
				m.pos[pkey(task, coll)] = pm
			}
			set := func(mm map[string]*meta.PositionInfo, k string, v *meta.PositionInfo) {
				if v == nil {
					return
				}
				if old := mm[k]; old != nil && old.Dropped {
					return // a dropped collection's entries are never overwritten
				}
				mm[k] = clonePI(v)
			}
			// once the drop state of the collection has been set its record is frozen: entries are neither overwritten nor added
			// (fix: "positions of a collection whose drop has been replicated are frozen")
			frozen := false
			for _, v := range pm.positions {
				frozen = frozen || v.Dropped
			}
			if !frozen {
				set(pm.positions, ch, pi)
				set(pm.op, ch, op)
				if tp != nil {
					set(pm.target, tp.DataPair.Key, tp)
				}
			}
		case "dropState":
			err := store.UpdateDropStateTaskCollectionPosition(f.GetTaskCollectionPositionMetaStore(ctx), task, coll)
			if pm := m.pos[pkey(task, coll)]; pm != nil {
				if err != nil {
					t.Fatalf("%s failed although the record exists: %v; history %v", desc, err, hist)
				}
				for _, mm := range []map[string]*meta.PositionInfo{pm.positions, pm.op, pm.target} {
					for _, v := range mm {
						v.Dropped = true
					}
				}
			} else if err == nil {
				t.Fatalf("%s succeeded although this root has no such record; history %v", desc, hist)
			}
		case "getPos":
			q := &meta.TaskCollectionPosition{TaskID: task}
			byColl := rapid.Bool().Draw(t, "byCollection")
			if byColl {
				q.CollectionID = coll
			}
			got, err := f.GetTaskCollectionPositionMetaStore(ctx).Get(ctx, q, nil)
			if err != nil {
				t.Fatalf("VERIF-TROUBLE %s: %v", desc, err)
			}
			var want []string
			for k := range m.pos {
				if strings.HasPrefix(k, task+"\x00") && (!byColl || k == pkey(task, coll)) {
					want = append(want, strings.ReplaceAll(k, "\x00", "/"))
				}
			}
			var g []string
			for _, p := range got {
				g = append(g, fmt.Sprintf("%s/%d", p.TaskID, p.CollectionID))
			}
			sort.Strings(g)
			sort.Strings(want)
			if !eqLines(g, want) {
				t.Fatalf("%s returned %v, this root holds %v; history %v", desc, g, want, hist)
			}
		case "deletePos":
			if err := store.DeleteTaskCollectionPosition(f.GetTaskCollectionPositionMetaStore(ctx), task, coll); err != nil {
				t.Fatalf("VERIF-TROUBLE %s: %v", desc, err)
			}
			delete(m.pos, pkey(task, coll))
		case "deleteTask":
			multi++
			before, _ := be.dump(roots)
			n := 0
			ff := &faultFactory{MetaStoreFactory: f, n: &n}
			if rapid.IntRange(0, 2).Draw(t, "injectFault") == 0 {
				ff.failAt = rapid.IntRange(1, 6).Draw(t, "failAtCall")
			}
			_, err := store.DeleteTask(ff, task)
			hist[len(hist)-1] += fmt.Sprintf("[failAt=%d calls=%d err=%v]", ff.failAt, n, err != nil)
			exists := m.tasks[task] != nil
			apply := func() {
				delete(m.tasks, task)
				for k := range m.pos {
					if strings.HasPrefix(k, task+"\x00") {
						delete(m.pos, k)
					}
				}
			}
			switch {
			case err == nil:
				if !exists {
					t.Fatalf("%s succeeded although this root has no such task; history %v", desc, hist)
				}
				apply()
			case ff.failAt > 0 && ff.failAt <= n:
				faults++
				// all or nothing: the backend equals the before-image or the after-image
				got, _ := be.dump(roots)
				if !eqLines(got, before) {
					apply()
					want := dumpModel(roots, models)
					if !eqLines(got, want) {
						t.Fatalf("%s with a failure injected at store call %d left a partial deletion:\n%shistory: %v", desc, ff.failAt, diffLines(got, before), hist)
					}
				}
			default:
				if exists {
					t.Fatalf("%s failed without injected failure: %v; history %v", desc, err, hist)
				}
			}
		case "msgPut":
			key := fmt.Sprintf("task_msg/%s/drop-collection-%d", task, coll)
			msg := coreapi.MetaMsg{Base: coreapi.BaseTaskMsg{TaskID: task, MsgID: fmt.Sprintf("drop-collection-%d", coll), TargetChannels: []string{"a", "b"}, ReadyChannels: []string{ch}}, Type: coreapi.DropCollectionMetaMsgType, Data: map[string]interface{}{"collection_name": "x"}}
			if err := f.GetReplicateStore(ctx).Put(ctx, key, msg); err != nil {
				t.Fatalf("VERIF-TROUBLE %s: %v", desc, err)
			}
			m.msgs[key] = msg
		case "msgGet":
			prefix := rapid.SampledFrom([]string{"task_msg/", "task_msg/" + task + "/"}).Draw(t, "prefix") // what ReplicateMeteImpl.Reload lists
			got, err := f.GetReplicateStore(ctx).Get(ctx, prefix, true)
			if err != nil {
				t.Fatalf("VERIF-TROUBLE %s: %v", desc, err)
			}
			var want, g []string
			for k, v := range m.msgs {
				if strings.HasPrefix(k, prefix) {
					want = append(want, v.Base.TaskID+"/"+v.Base.MsgID)
				}
			}
			for _, v := range got {
				g = append(g, v.Base.TaskID+"/"+v.Base.MsgID)
			}
			sort.Strings(g)
			sort.Strings(want)
			if !eqLines(g, want) {
				t.Fatalf("%s (prefix %q) returned %v, this root holds %v; history %v", desc, prefix, g, want, hist)
			}
		case "msgRemove":
			key := fmt.Sprintf("task_msg/%s/drop-collection-%d", task, coll)
			if err := f.GetReplicateStore(ctx).Remove(ctx, key); err != nil {
				t.Fatalf("VERIF-TROUBLE %s: %v", desc, err)
			}
			delete(m.msgs, key)
		}
		check(desc)
	}
	sc.Class("backend:" + kind)
	sc.ClassIf(related, "ids-or-roots-in-prefix/pattern-relation")
	sc.ClassIf(faults > 0, "fault-inside-DeleteTask")
	sc.ClassIf(multi > 0, "DeleteTask")
	sc.NonTrivial(related && len(hist) >= 3)
	sc.Fingerprint(fmt.Sprint(kind, roots, hist))
	sc.Sample(map[string]any{"backend": kind, "roots": roots, "history": hist})
	sc.Done()
}

func taskIDs(ts []*meta.TaskInfo) []string {
	var r []string
	for _, t := range ts {
		r = append(r, t.TaskID)
	}
	return r
}

func TestC12_Etcd(t *testing.T)  { rapid.Check(t, func(t *rapid.T) { propC12(t, "etcd") }) }
func TestC12_MySQL(t *testing.T) { rapid.Check(t, func(t *rapid.T) { propC12(t, "mysql") }) }
