// Package target: scriptable fake of api.TargetAPI (what the reader asks the downstream about).
package target

import (
	"context"
	"fmt"
	"sync"

	"github.com/zilliztech/milvus-cdc/core/api"
	"github.com/zilliztech/milvus-cdc/core/model"
)

type Coll struct {
	DB, Name   string
	ID         int64
	VChannels  []string
	PChannels  []string
	Partitions map[string]int64
	// Hidden partitions are revealed after the given number of further GetPartitionInfo calls (<0: never).
	Hidden map[string]int
}

type API struct {
	mu    sync.Mutex
	colls map[string]*Coll
	// Calls counts the queries per kind (for statistics).
	Calls map[string]int
	// FailPartitionInfo makes GetPartitionInfo fail when it returns an error.
	FailPartitionInfo func(db, coll string) error
	// Auto, when set, synthesizes a downstream collection the first time an unknown one is asked for.
	Auto func(db, name string) *Coll
	// BeforeCollectionInfo, when set, is called (without the lock) before GetCollectionInfo answers; it may block to let the
	// harness line up concurrent callers.
	BeforeCollectionInfo func(db, name string)
	// DBOf, when set, answers GetDatabaseName (the real client searches the downstream when the source database is gone).
	DBOf func(coll, db string) (string, error)
}

func New() *API { return &API{colls: map[string]*Coll{}, Calls: map[string]int{}} }

func key(db, name string) string {
	if db == "" {
		db = "default"
	}
	return db + "/" + name
}

// SetBeforeCollectionInfo installs (or removes, with nil) the hook.
func (a *API) SetBeforeCollectionInfo(f func(db, name string)) {
	a.mu.Lock()
	a.BeforeCollectionInfo = f
	a.mu.Unlock()
}

func (a *API) Put(c *Coll) {
	a.mu.Lock()
	defer a.mu.Unlock()
	a.colls[key(c.DB, c.Name)] = c
}

func (a *API) Remove(db, name string) {
	a.mu.Lock()
	defer a.mu.Unlock()
	delete(a.colls, key(db, name))
}

func (a *API) Has(db, name string) bool {
	a.mu.Lock()
	defer a.mu.Unlock()
	return a.colls[key(db, name)] != nil
}

// SetPartition adds (or reveals) a partition.
func (a *API) SetPartition(db, name, part string, id int64) {
	a.mu.Lock()
	defer a.mu.Unlock()
	if c := a.colls[key(db, name)]; c != nil {
		c.Partitions[part] = id
		delete(c.Hidden, part)
	}
}

func (a *API) visible(c *Coll, tick bool) map[string]int64 {
	r := map[string]int64{}
	for k, v := range c.Partitions {
		if n, hidden := c.Hidden[k]; hidden {
			if n == 0 {
				delete(c.Hidden, k)
			} else {
				if tick && n > 0 {
					c.Hidden[k] = n - 1
				}
				continue
			}
		}
		r[k] = v
	}
	return r
}

func (a *API) GetCollectionInfo(ctx context.Context, collectionName, databaseName string) (*model.CollectionInfo, error) {
	a.mu.Lock()
	hold := a.BeforeCollectionInfo
	a.mu.Unlock()
	if hold != nil {
		hold(databaseName, collectionName)
	}
	a.mu.Lock()
	defer a.mu.Unlock()
	a.Calls["GetCollectionInfo"]++
	c := a.colls[key(databaseName, collectionName)]
	if c == nil && a.Auto != nil {
		if c = a.Auto(databaseName, collectionName); c != nil {
			a.colls[key(databaseName, collectionName)] = c
		}
	}
	if c == nil {
		return nil, fmt.Errorf("collection not found[database=%s][collection=%s]", databaseName, collectionName)
	}
	return &model.CollectionInfo{DatabaseName: databaseName, CollectionID: c.ID, CollectionName: collectionName,
		VChannels: append([]string(nil), c.VChannels...), PChannels: append([]string(nil), c.PChannels...), Partitions: a.visible(c, false)}, nil
}

func (a *API) GetPartitionInfo(ctx context.Context, collectionName, databaseName string) (*model.CollectionInfo, error) {
	a.mu.Lock()
	defer a.mu.Unlock()
	a.Calls["GetPartitionInfo"]++
	if a.FailPartitionInfo != nil {
		if err := a.FailPartitionInfo(databaseName, collectionName); err != nil {
			return nil, err
		}
	}
	c := a.colls[key(databaseName, collectionName)]
	if c == nil && a.Auto != nil {
		if c = a.Auto(databaseName, collectionName); c != nil {
			a.colls[key(databaseName, collectionName)] = c
		}
	}
	if c == nil {
		return nil, fmt.Errorf("collection not found[database=%s][collection=%s]", databaseName, collectionName)
	}
	return &model.CollectionInfo{Partitions: a.visible(c, true)}, nil
}

func (a *API) GetDatabaseName(ctx context.Context, collectionName, databaseName string) (string, error) {
	a.mu.Lock()
	f := a.DBOf
	a.mu.Unlock()
	if f != nil {
		return f(collectionName, databaseName)
	}
	return databaseName, nil
}

var _ api.TargetAPI = (*API)(nil)
