// Package store: in-memory api.ReplicateStore that round-trips every value through JSON like the real stores.
package store

import (
	"context"
	"encoding/json"
	"sort"
	"strings"
	"sync"

	"github.com/zilliztech/milvus-cdc/core/api"
)

type JSONStore struct {
	mu sync.Mutex
	M  map[string]string
}

func New() *JSONStore { return &JSONStore{M: map[string]string{}} }

func (s *JSONStore) Get(ctx context.Context, key string, withPrefix bool) ([]api.MetaMsg, error) {
	s.mu.Lock()
	defer s.mu.Unlock()
	keys := make([]string, 0, len(s.M))
	for k := range s.M {
		if (withPrefix && strings.HasPrefix(k, key)) || (!withPrefix && k == key) {
			keys = append(keys, k)
		}
	}
	sort.Strings(keys)
	var r []api.MetaMsg
	for _, k := range keys {
		var m api.MetaMsg
		if err := json.Unmarshal([]byte(s.M[k]), &m); err != nil {
			return nil, err
		}
		r = append(r, m)
	}
	return r, nil
}

func (s *JSONStore) Put(ctx context.Context, key string, value api.MetaMsg) error {
	b, err := json.Marshal(value)
	if err != nil {
		return err
	}
	s.mu.Lock()
	defer s.mu.Unlock()
	s.M[key] = string(b)
	return nil
}

func (s *JSONStore) Remove(ctx context.Context, key string) error {
	s.mu.Lock()
	defer s.mu.Unlock()
	delete(s.M, key)
	return nil
}

func (s *JSONStore) Keys() []string {
	s.mu.Lock()
	defer s.mu.Unlock()
	var r []string
	for k := range s.M {
		r = append(r, k)
	}
	sort.Strings(r)
	return r
}
