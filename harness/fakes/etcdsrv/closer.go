package etcdsrv

import (
	"reflect"
	"unsafe"

	clientv3 "go.etcd.io/etcd/client/v3"
)

// CloseClientsOf closes every *clientv3.Client held in an (unexported) field of the given object. The stores and the
// catalog reader of milvus-cdc never close their etcd client (they live as long as the service); a test process that builds
// thousands of them would run out of file descriptors.
func CloseClientsOf(obj any) {
	closeIn(reflect.ValueOf(obj), 3, map[uintptr]bool{})
}

func closeIn(v reflect.Value, depth int, seen map[uintptr]bool) {
	for v.Kind() == reflect.Ptr || v.Kind() == reflect.Interface {
		if v.IsNil() {
			return
		}
		v = v.Elem()
	}
	if v.Kind() != reflect.Struct || !v.CanAddr() || depth == 0 {
		return
	}
	want := reflect.TypeOf((*clientv3.Client)(nil))
	for i := 0; i < v.NumField(); i++ {
		f := v.Field(i)
		// make unexported fields readable
		f = reflect.NewAt(f.Type(), unsafe.Pointer(f.UnsafeAddr())).Elem()
		switch {
		case f.Type() == want:
			if !f.IsNil() && !seen[f.Pointer()] {
				seen[f.Pointer()] = true
				_ = f.Interface().(*clientv3.Client).Close()
			}
		case f.Kind() == reflect.Ptr || f.Kind() == reflect.Interface:
			// the stores a factory hands out (same package) hold the client too, or one of their own
			if !f.IsNil() {
				e := f
				for e.Kind() == reflect.Interface {
					e = e.Elem()
				}
				if e.Kind() == reflect.Ptr && !e.IsNil() && e.Elem().Kind() == reflect.Struct && e.Elem().Type().PkgPath() != "" && isCDC(e.Elem().Type().PkgPath()) {
					closeIn(e, depth-1, seen)
				}
			}
		}
	}
}

func isCDC(pkg string) bool {
	return len(pkg) >= 31 && pkg[:31] == "github.com/zilliztech/milvus-cd"
}
