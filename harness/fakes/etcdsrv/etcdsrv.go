// Package etcdsrv starts one embedded (real) etcd server per test process on free loopback ports.
package etcdsrv

import (
	"fmt"
	"net"
	"net/url"
	"os"
	"sync"
	"time"

	clientv3 "go.etcd.io/etcd/client/v3"
	"go.etcd.io/etcd/server/v3/embed"
)

var (
	once     sync.Once
	endpoint string
	srv      *embed.Etcd
	dir      string
	startErr error
)

func freePort() int {
	l, err := net.Listen("tcp", "127.0.0.1:0")
	if err != nil {
		panic(err)
	}
	defer l.Close()
	return l.Addr().(*net.TCPAddr).Port
}

// Endpoint returns "127.0.0.1:<port>" of the process-wide embedded etcd, starting it on first use.
func Endpoint() (string, error) {
	once.Do(func() {
		for attempt := 0; attempt < 5; attempt++ {
			cfg := embed.NewConfig()
			// inside the driver's scratch directory when there is one: a job that is killed (timeout) cannot remove its data itself
			dir, _ = os.MkdirTemp(os.Getenv("VERIF_SCRATCH"), "verif-etcd-")
			cfg.Dir = dir
			cp, pp := freePort(), freePort()
			lc, _ := url.Parse(fmt.Sprintf("http://127.0.0.1:%d", cp))
			lp, _ := url.Parse(fmt.Sprintf("http://127.0.0.1:%d", pp))
			cfg.LCUrls, cfg.ACUrls, cfg.LPUrls, cfg.APUrls = []url.URL{*lc}, []url.URL{*lc}, []url.URL{*lp}, []url.URL{*lp}
			cfg.InitialCluster = cfg.InitialClusterFromName(cfg.Name)
			cfg.LogLevel = "error"
			cfg.UnsafeNoFsync = true
			e, err := embed.StartEtcd(cfg)
			if err != nil {
				startErr = err
				os.RemoveAll(dir)
				continue
			}
			select {
			case <-e.Server.ReadyNotify():
			case <-time.After(30 * time.Second):
				startErr = fmt.Errorf("embedded etcd not ready")
				e.Close()
				os.RemoveAll(dir)
				continue
			}
			srv, endpoint, startErr = e, fmt.Sprintf("127.0.0.1:%d", cp), nil
			return
		}
	})
	return endpoint, startErr
}

// Client returns a new client connected to the embedded server.
func Client() (*clientv3.Client, error) {
	ep, err := Endpoint()
	if err != nil {
		return nil, err
	}
	return clientv3.New(clientv3.Config{Endpoints: []string{ep}, DialTimeout: 5 * time.Second})
}

// Stop shuts the server down and removes its data directory (call from TestMain).
func Stop() {
	if srv != nil {
		srv.Close()
		srv = nil
	}
	if dir != "" {
		os.RemoveAll(dir)
	}
}
