package etcdsrv

import (
	"context"
	"reflect"
	"sync/atomic"
	"unsafe"

	clientv3 "go.etcd.io/etcd/client/v3"
)

// ClientsOf returns the etcd clients held (in unexported fields) by an object of the code under test.
func ClientsOf(obj any) []*clientv3.Client {
	var out []*clientv3.Client
	collect(reflect.ValueOf(obj), 3, map[uintptr]bool{}, &out)
	return out
}

func collect(v reflect.Value, depth int, seen map[uintptr]bool, out *[]*clientv3.Client) {
	for v.Kind() == reflect.Ptr || v.Kind() == reflect.Interface {
		if v.IsNil() {
			return
		}
		v = v.Elem()
	}
	if v.Kind() != reflect.Struct || !v.CanAddr() || depth == 0 {
		return
	}
	want := reflect.TypeOf((*clientv3.Client)(nil))
	for i := 0; i < v.NumField(); i++ {
		f := v.Field(i)
		f = reflect.NewAt(f.Type(), unsafe.Pointer(f.UnsafeAddr())).Elem()
		switch {
		case f.Type() == want:
			if !f.IsNil() && !seen[f.Pointer()] {
				seen[f.Pointer()] = true
				*out = append(*out, f.Interface().(*clientv3.Client))
			}
		case f.Kind() == reflect.Ptr || f.Kind() == reflect.Interface:
			if !f.IsNil() {
				e := f
				for e.Kind() == reflect.Interface {
					e = e.Elem()
				}
				if e.Kind() == reflect.Ptr && !e.IsNil() && e.Elem().Kind() == reflect.Struct && e.Elem().Type().PkgPath() != "" && isCDC(e.Elem().Type().PkgPath()) {
					collect(e, depth-1, seen, out)
				}
			}
		}
	}
}

// readHookKV calls before(n, key) ahead of the n-th (0-based) Get issued through the client; everything else is the real KV.
type readHookKV struct {
	clientv3.KV
	n      int64
	before func(n int, key string)
}

func (k *readHookKV) Get(ctx context.Context, key string, opts ...clientv3.OpOption) (*clientv3.GetResponse, error) {
	n := atomic.AddInt64(&k.n, 1) - 1
	k.before(int(n), key)
	return k.KV.Get(ctx, key, opts...)
}

// HookReads makes every Get of the client (the methods of the embedded KV interface) announce itself first. The harness uses it
// to own the interleaving of a multi-read snapshot with writes of the source.
func HookReads(cli *clientv3.Client, before func(n int, key string)) {
	cli.KV = &readHookKV{KV: cli.KV, before: before}
}
