// Package handler is a recording, scriptable fake of api.DataHandler (the outermost seam of the writer).
//
// Every call is recorded with a deep copy of its parameter. A Behave callback (set by the test)
// decides the result of each call; the default is success. Nothing here is random.
package handler

import (
	"context"
	"sync"

	"google.golang.org/protobuf/proto"

	"github.com/milvus-io/milvus-proto/go-api/v2/commonpb"
	"github.com/milvus-io/milvus-proto/go-api/v2/msgpb"
	"github.com/milvus-io/milvus-sdk-go/v2/entity"

	"github.com/zilliztech/milvus-cdc/core/api"
)

// Call is one recorded downstream call.
type Call struct {
	Seq    int
	Method string
	// Ctx is the context of the call (ReplicateMessage only): lets a test keep the call in flight until it ends.
	Ctx context.Context `json:"-"`
	// RouteDB is ReplicateParam.Database: the database the real MilvusDataHandler would route the call to.
	RouteDB string
	// Req is the embedded request proto (deep copy) for request-style params, nil otherwise.
	Req proto.Message
	// Base is the MsgBase the call carries (deep copy), from MsgBaseParam or from the request.
	Base *commonpb.MsgBase
	// Flat fields for the struct-style params.
	Collection, Partition, Name string
	Schema                      *entity.Schema
	ShardsNum                   int32
	Consistency                 commonpb.ConsistencyLevel
	Properties                  []*commonpb.KeyValuePair
	// ReplicateMessage
	Channel          string
	BeginTs, EndTs   uint64
	MsgsBytes        [][]byte
	StartPos, EndPos []*msgpb.MsgPosition
	Err              error
}

// IsProbe reports whether the call is a read-only readiness probe.
func (c *Call) IsProbe() bool {
	return c.Method == "DescribeCollection" || c.Method == "DescribeDatabase" || c.Method == "DescribePartition"
}

type Handler struct {
	api.DefaultDataHandler
	mu    sync.Mutex
	calls []*Call
	// Behave decides the outcome of a call (it may inspect and must not retain c). nil => success.
	Behave func(c *Call) error
	// TargetPosition is returned (base64 text) by ReplicateMessage on success.
	TargetPosition func(c *Call) string
}

func New() *Handler { return &Handler{} }

func (h *Handler) Calls() []*Call {
	h.mu.Lock()
	defer h.mu.Unlock()
	return append([]*Call(nil), h.calls...)
}

func (h *Handler) Reset() {
	h.mu.Lock()
	defer h.mu.Unlock()
	h.calls = nil
}

func (h *Handler) rec(c *Call) error {
	h.mu.Lock()
	c.Seq = len(h.calls)
	h.calls = append(h.calls, c)
	b := h.Behave
	h.mu.Unlock()
	if b != nil {
		c.Err = b(c)
	}
	return c.Err
}

func cloneBase(b *commonpb.MsgBase) *commonpb.MsgBase {
	if b == nil {
		return nil
	}
	return proto.Clone(b).(*commonpb.MsgBase)
}

func cloneReq[T proto.Message](m T) proto.Message { return proto.Clone(m) }

func cloneKVs(kvs []*commonpb.KeyValuePair) []*commonpb.KeyValuePair {
	r := make([]*commonpb.KeyValuePair, len(kvs))
	for i, kv := range kvs {
		r[i] = proto.Clone(kv).(*commonpb.KeyValuePair)
	}
	return r
}

func clonePositions(ps []*msgpb.MsgPosition) []*msgpb.MsgPosition {
	r := make([]*msgpb.MsgPosition, len(ps))
	for i, p := range ps {
		r[i] = proto.Clone(p).(*msgpb.MsgPosition)
	}
	return r
}

func (h *Handler) CreateCollection(ctx context.Context, p *api.CreateCollectionParam) error {
	var sch *entity.Schema
	if p.Schema != nil {
		sch = (&entity.Schema{}).ReadProto(p.Schema.ProtoMessage())
	}
	return h.rec(&Call{Method: "CreateCollection", RouteDB: p.Database, Base: cloneBase(p.Base), Schema: sch, Collection: sch.CollectionName,
		ShardsNum: p.ShardsNum, Consistency: p.ConsistencyLevel, Properties: cloneKVs(p.Properties)})
}

func (h *Handler) DropCollection(ctx context.Context, p *api.DropCollectionParam) error {
	return h.rec(&Call{Method: "DropCollection", RouteDB: p.Database, Base: cloneBase(p.Base), Collection: p.CollectionName})
}

func (h *Handler) CreatePartition(ctx context.Context, p *api.CreatePartitionParam) error {
	return h.rec(&Call{Method: "CreatePartition", RouteDB: p.Database, Base: cloneBase(p.Base), Collection: p.CollectionName, Partition: p.PartitionName})
}

func (h *Handler) DropPartition(ctx context.Context, p *api.DropPartitionParam) error {
	return h.rec(&Call{Method: "DropPartition", RouteDB: p.Database, Base: cloneBase(p.Base), Collection: p.CollectionName, Partition: p.PartitionName})
}

func (h *Handler) CreateIndex(ctx context.Context, p *api.CreateIndexParam) error {
	return h.rec(&Call{Method: "CreateIndex", RouteDB: p.Database, Req: cloneReq(p.CreateIndexRequest), Base: cloneBase(p.GetBase()), Collection: p.GetCollectionName()})
}

func (h *Handler) DropIndex(ctx context.Context, p *api.DropIndexParam) error {
	return h.rec(&Call{Method: "DropIndex", RouteDB: p.Database, Req: cloneReq(p.DropIndexRequest), Base: cloneBase(p.GetBase()), Collection: p.GetCollectionName()})
}

func (h *Handler) AlterIndex(ctx context.Context, p *api.AlterIndexParam) error {
	return h.rec(&Call{Method: "AlterIndex", RouteDB: p.Database, Req: cloneReq(p.AlterIndexRequest), Base: cloneBase(p.GetBase()), Collection: p.GetCollectionName()})
}

func (h *Handler) LoadCollection(ctx context.Context, p *api.LoadCollectionParam) error {
	return h.rec(&Call{Method: "LoadCollection", RouteDB: p.Database, Req: cloneReq(p.LoadCollectionRequest), Base: cloneBase(p.GetBase()), Collection: p.GetCollectionName()})
}

func (h *Handler) ReleaseCollection(ctx context.Context, p *api.ReleaseCollectionParam) error {
	return h.rec(&Call{Method: "ReleaseCollection", RouteDB: p.Database, Req: cloneReq(p.ReleaseCollectionRequest), Base: cloneBase(p.GetBase()), Collection: p.GetCollectionName()})
}

func (h *Handler) LoadPartitions(ctx context.Context, p *api.LoadPartitionsParam) error {
	return h.rec(&Call{Method: "LoadPartitions", RouteDB: p.Database, Req: cloneReq(p.LoadPartitionsRequest), Base: cloneBase(p.GetBase()), Collection: p.GetCollectionName()})
}

func (h *Handler) ReleasePartitions(ctx context.Context, p *api.ReleasePartitionsParam) error {
	return h.rec(&Call{Method: "ReleasePartitions", RouteDB: p.Database, Req: cloneReq(p.ReleasePartitionsRequest), Base: cloneBase(p.GetBase()), Collection: p.GetCollectionName()})
}

func (h *Handler) Flush(ctx context.Context, p *api.FlushParam) error {
	return h.rec(&Call{Method: "Flush", RouteDB: p.Database, Req: cloneReq(p.FlushRequest), Base: cloneBase(p.GetBase())})
}

func (h *Handler) CreateDatabase(ctx context.Context, p *api.CreateDatabaseParam) error {
	return h.rec(&Call{Method: "CreateDatabase", RouteDB: p.Database, Req: cloneReq(p.CreateDatabaseRequest), Base: cloneBase(p.GetBase()), Name: p.GetDbName()})
}

func (h *Handler) DropDatabase(ctx context.Context, p *api.DropDatabaseParam) error {
	return h.rec(&Call{Method: "DropDatabase", RouteDB: p.Database, Req: cloneReq(p.DropDatabaseRequest), Base: cloneBase(p.GetBase()), Name: p.GetDbName()})
}

func (h *Handler) AlterDatabase(ctx context.Context, p *api.AlterDatabaseParam) error {
	return h.rec(&Call{Method: "AlterDatabase", RouteDB: p.Database, Req: cloneReq(p.AlterDatabaseRequest), Base: cloneBase(p.GetBase()), Name: p.GetDbName()})
}

func (h *Handler) CreateUser(ctx context.Context, p *api.CreateUserParam) error {
	return h.rec(&Call{Method: "CreateUser", RouteDB: p.Database, Req: cloneReq(p.CreateCredentialRequest), Base: cloneBase(p.GetBase())})
}

func (h *Handler) DeleteUser(ctx context.Context, p *api.DeleteUserParam) error {
	return h.rec(&Call{Method: "DeleteUser", RouteDB: p.Database, Req: cloneReq(p.DeleteCredentialRequest), Base: cloneBase(p.GetBase())})
}

func (h *Handler) UpdateUser(ctx context.Context, p *api.UpdateUserParam) error {
	return h.rec(&Call{Method: "UpdateUser", RouteDB: p.Database, Req: cloneReq(p.UpdateCredentialRequest), Base: cloneBase(p.GetBase())})
}

func (h *Handler) CreateRole(ctx context.Context, p *api.CreateRoleParam) error {
	return h.rec(&Call{Method: "CreateRole", RouteDB: p.Database, Req: cloneReq(p.CreateRoleRequest), Base: cloneBase(p.GetBase())})
}

func (h *Handler) DropRole(ctx context.Context, p *api.DropRoleParam) error {
	return h.rec(&Call{Method: "DropRole", RouteDB: p.Database, Req: cloneReq(p.DropRoleRequest), Base: cloneBase(p.GetBase())})
}

func (h *Handler) OperateUserRole(ctx context.Context, p *api.OperateUserRoleParam) error {
	return h.rec(&Call{Method: "OperateUserRole", RouteDB: p.Database, Req: cloneReq(p.OperateUserRoleRequest), Base: cloneBase(p.GetBase())})
}

func (h *Handler) OperatePrivilege(ctx context.Context, p *api.OperatePrivilegeParam) error {
	return h.rec(&Call{Method: "OperatePrivilege", RouteDB: p.Database, Req: cloneReq(p.OperatePrivilegeRequest), Base: cloneBase(p.GetBase())})
}

func (h *Handler) ReplicateMessage(ctx context.Context, p *api.ReplicateMessageParam) error {
	bs := make([][]byte, len(p.MsgsBytes))
	for i, b := range p.MsgsBytes {
		bs[i] = append([]byte(nil), b...)
	}
	c := &Call{Method: "ReplicateMessage", RouteDB: p.Database, Base: cloneBase(p.Base), Channel: p.ChannelName, BeginTs: p.BeginTs, EndTs: p.EndTs,
		MsgsBytes: bs, StartPos: clonePositions(p.StartPositions), EndPos: clonePositions(p.EndPositions), Ctx: ctx}
	err := h.rec(c)
	if err == nil && h.TargetPosition != nil {
		p.TargetMsgPosition = h.TargetPosition(c)
	}
	return err
}

func (h *Handler) DescribeCollection(ctx context.Context, p *api.DescribeCollectionParam) error {
	return h.rec(&Call{Method: "DescribeCollection", RouteDB: p.Database, Collection: p.Name})
}

func (h *Handler) DescribeDatabase(ctx context.Context, p *api.DescribeDatabaseParam) error {
	return h.rec(&Call{Method: "DescribeDatabase", RouteDB: p.Database, Name: p.Name})
}

func (h *Handler) DescribePartition(ctx context.Context, p *api.DescribePartitionParam) error {
	return h.rec(&Call{Method: "DescribePartition", RouteDB: p.Database, Collection: p.CollectionName, Partition: p.PartitionName})
}

var _ api.DataHandler = (*Handler)(nil)
