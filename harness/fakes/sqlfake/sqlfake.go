// Package sqlfake is a tiny in-memory SQL engine behind database/sql that interprets exactly the statement shapes
// used by server/store/mysql.go and mysql_replicate_store.go, with MySQL semantics where they matter for the
// properties: primary-key upsert (INSERT ... ON DUPLICATE KEY UPDATE), LIKE patterns ('%' any sequence, '_' any
// single character, '\' escapes), '=' predicates, snapshot transactions (BEGIN copies, COMMIT publishes, ROLLBACK
// discards) and clustered-index (primary key) result order. Anything else yields an "unsupported statement" error,
// which the checks treat as harness trouble, never as a violation.
//
// Assumption (recorded in the evidence): string comparison is byte-wise; identifiers differing only in case or
// trailing blanks are not generated, so the collation of a real server does not matter.
package sqlfake

import (
	"database/sql"
	"database/sql/driver"
	"errors"
	"fmt"
	"io"
	"regexp"
	"sort"
	"strings"
	"sync"
)

type row map[string]any

type table struct {
	cols []string
	pk   string
	rows map[string]row // by primary key
}

func (t *table) clone() *table {
	n := &table{cols: t.cols, pk: t.pk, rows: make(map[string]row, len(t.rows))}
	for k, r := range t.rows {
		c := make(row, len(r))
		for a, b := range r {
			c[a] = b
		}
		n.rows[k] = c
	}
	return n
}

// Engine is one database.
type Engine struct {
	mu     sync.Mutex
	tables map[string]*table
	// Fault, when set, is consulted before every statement and before COMMIT ("COMMIT"); a non-nil error fails it.
	Fault func(stmt string) error
	// Stmts counts executed statements (for fault positions).
	Stmts int
}

var (
	regMu   sync.Mutex
	engines = map[string]*Engine{}
	regOnce sync.Once
)

// Open returns a *sql.DB on the engine called name (created on first use) and the engine itself.
func Open(name string) (*sql.DB, *Engine) {
	regOnce.Do(func() { sql.Register("verif-sqlfake", &drv{}) })
	regMu.Lock()
	e := engines[name]
	if e == nil {
		e = &Engine{tables: map[string]*table{}}
		engines[name] = e
	}
	regMu.Unlock()
	db, err := sql.Open("verif-sqlfake", name)
	if err != nil {
		panic(err)
	}
	return db, e
}

// Drop forgets the engine (frees memory between cases).
func Drop(name string) {
	regMu.Lock()
	delete(engines, name)
	regMu.Unlock()
}

// Dump returns every row of every table as "table|pk|col=val;..." lines, sorted.
func (e *Engine) Dump() []string {
	e.mu.Lock()
	defer e.mu.Unlock()
	var out []string
	for tn, t := range e.tables {
		for pk, r := range t.rows {
			var cs []string
			for _, c := range t.cols {
				cs = append(cs, fmt.Sprintf("%s=%v", c, r[c]))
			}
			out = append(out, tn+"|"+pk+"|"+strings.Join(cs, ";"))
		}
	}
	sort.Strings(out)
	return out
}

// Rows returns copies of the rows of a table keyed by primary key.
func (e *Engine) Rows(tableName string) map[string]map[string]any {
	e.mu.Lock()
	defer e.mu.Unlock()
	out := map[string]map[string]any{}
	if t := e.tables[tableName]; t != nil {
		for pk, r := range t.rows {
			c := map[string]any{}
			for k, v := range r {
				c[k] = v
			}
			out[pk] = c
		}
	}
	return out
}

type drv struct{}

func (d *drv) Open(name string) (driver.Conn, error) {
	regMu.Lock()
	e := engines[name]
	regMu.Unlock()
	if e == nil {
		return nil, fmt.Errorf("sqlfake: unknown database %q", name)
	}
	return &conn{e: e}, nil
}

type conn struct {
	e  *Engine
	tx map[string]*table // private snapshot while a transaction is open
}

func (c *conn) Prepare(q string) (driver.Stmt, error) { return &stmt{c: c, q: q}, nil }
func (c *conn) Close() error                          { return nil }
func (c *conn) Begin() (driver.Tx, error) {
	c.e.mu.Lock()
	defer c.e.mu.Unlock()
	if c.e.Fault != nil {
		if err := c.e.Fault("BEGIN"); err != nil {
			return nil, err
		}
	}
	c.tx = map[string]*table{}
	for k, t := range c.e.tables {
		c.tx[k] = t.clone()
	}
	return &tx{c: c}, nil
}

type tx struct{ c *conn }

func (t *tx) Commit() error {
	t.c.e.mu.Lock()
	defer t.c.e.mu.Unlock()
	if t.c.tx == nil {
		return errors.New("sqlfake: no transaction")
	}
	if t.c.e.Fault != nil {
		if err := t.c.e.Fault("COMMIT"); err != nil {
			t.c.tx = nil // a failed commit leaves nothing behind (the server rolls back)
			return err
		}
	}
	t.c.e.tables = t.c.tx
	t.c.tx = nil
	return nil
}

func (t *tx) Rollback() error {
	t.c.e.mu.Lock()
	defer t.c.e.mu.Unlock()
	t.c.tx = nil
	return nil
}

type stmt struct {
	c *conn
	q string
}

func (s *stmt) Close() error  { return nil }
func (s *stmt) NumInput() int { return -1 }

var (
	reCreate = regexp.MustCompile(`(?is)^\s*CREATE TABLE IF NOT EXISTS (\w+)\s*\((.*)\)\s*$`)
	reInsert = regexp.MustCompile(`(?is)^\s*INSERT INTO (\w+)\s*\(([^)]*)\)\s*VALUES\s*\(([^)]*)\)\s*ON DUPLICATE KEY UPDATE (.*)$`)
	reSelect = regexp.MustCompile(`(?is)^\s*SELECT (.+?) FROM (\w+) WHERE (.+)$`)
	reDelete = regexp.MustCompile(`(?is)^\s*DELETE FROM (\w+) WHERE (.+)$`)
	reLike   = regexp.MustCompile(`(?is)^\s*(\w+) LIKE '(.*)'\s*$`)
	reLikeQ  = regexp.MustCompile(`(?is)^\s*(\w+) LIKE \?\s*$`)
	reEq     = regexp.MustCompile(`(?is)^\s*(\w+) = \?\s*$`)
	rePK     = regexp.MustCompile(`(?is)PRIMARY KEY \((\w+)\)`)
)

func (s *stmt) tables() map[string]*table {
	if s.c.tx != nil {
		return s.c.tx
	}
	return s.c.e.tables
}

func unsupported(q string) error { return fmt.Errorf("sqlfake: unsupported statement: %s", strings.Join(strings.Fields(q), " ")) }

// likeMatch implements MySQL LIKE with the default escape character '\'.
func likeMatch(pattern, s string) bool {
	p, str := []rune(pattern), []rune(s)
	var rec func(i, j int) bool
	rec = func(i, j int) bool {
		for i < len(p) {
			switch p[i] {
			case '%':
				for k := j; k <= len(str); k++ {
					if rec(i+1, k) {
						return true
					}
				}
				return false
			case '_':
				if j >= len(str) {
					return false
				}
				i, j = i+1, j+1
			case '\\':
				if i+1 < len(p) {
					i++
				}
				fallthrough
			default:
				if j >= len(str) || str[j] != p[i] {
					return false
				}
				i, j = i+1, j+1
			}
		}
		return j == len(str)
	}
	return rec(0, 0)
}

type pred func(r row, args []driver.Value, next *int) (bool, error)

func parseWhere(w string) ([]pred, error) {
	var ps []pred
	for _, term := range regexp.MustCompile(`(?i)\s+AND\s+`).Split(w, -1) {
		if m := reLike.FindStringSubmatch(term); m != nil {
			col, pat := m[1], m[2]
			ps = append(ps, func(r row, args []driver.Value, next *int) (bool, error) {
				return likeMatch(pat, fmt.Sprint(r[col])), nil
			})
			continue
		}
		if m := reLikeQ.FindStringSubmatch(term); m != nil {
			col := m[1]
			ps = append(ps, func(r row, args []driver.Value, next *int) (bool, error) {
				if *next >= len(args) {
					return false, errors.New("sqlfake: not enough arguments")
				}
				v := args[*next]
				*next++
				return likeMatch(fmt.Sprint(v), fmt.Sprint(r[col])), nil
			})
			continue
		}
		if m := reEq.FindStringSubmatch(term); m != nil {
			col := m[1]
			ps = append(ps, func(r row, args []driver.Value, next *int) (bool, error) {
				if *next >= len(args) {
					return false, errors.New("sqlfake: not enough arguments")
				}
				v := args[*next]
				*next++
				return fmt.Sprint(r[col]) == fmt.Sprint(v), nil
			})
			continue
		}
		return nil, fmt.Errorf("unsupported predicate %q", term)
	}
	return ps, nil
}

func (s *stmt) fault() error {
	s.c.e.Stmts++
	if s.c.e.Fault != nil {
		return s.c.e.Fault(strings.Join(strings.Fields(s.q), " "))
	}
	return nil
}

func (s *stmt) Exec(args []driver.Value) (driver.Result, error) {
	s.c.e.mu.Lock()
	defer s.c.e.mu.Unlock()
	if err := s.fault(); err != nil {
		return nil, err
	}
	if m := reCreate.FindStringSubmatch(s.q); m != nil {
		name := m[1]
		if s.tables()[name] != nil {
			return driver.RowsAffected(0), nil
		}
		t := &table{rows: map[string]row{}}
		for _, line := range strings.Split(m[2], "\n") {
			f := strings.Fields(strings.TrimSpace(line))
			if len(f) < 2 {
				continue
			}
			up := strings.ToUpper(f[0])
			if up == "PRIMARY" || up == "INDEX" || up == "KEY" || up == "UNIQUE" {
				continue
			}
			t.cols = append(t.cols, f[0])
		}
		pk := rePK.FindStringSubmatch(m[2])
		if pk == nil || len(t.cols) == 0 {
			return nil, unsupported(s.q)
		}
		t.pk = pk[1]
		s.tables()[name] = t
		return driver.RowsAffected(0), nil
	}
	if m := reInsert.FindStringSubmatch(s.q); m != nil {
		t := s.tables()[m[1]]
		if t == nil {
			return nil, fmt.Errorf("sqlfake: table %s doesn't exist", m[1])
		}
		var cols []string
		for _, c := range strings.Split(m[2], ",") {
			cols = append(cols, strings.TrimSpace(c))
		}
		nvals := len(strings.Split(m[3], ","))
		if nvals != len(cols) || strings.ReplaceAll(strings.ReplaceAll(m[3], " ", ""), ",", "") != strings.Repeat("?", nvals) {
			return nil, unsupported(s.q)
		}
		var upd []string
		for _, u := range strings.Split(m[4], ",") {
			um := reEq.FindStringSubmatch(u)
			if um == nil {
				return nil, unsupported(s.q)
			}
			upd = append(upd, um[1])
		}
		if len(args) != len(cols)+len(upd) {
			return nil, fmt.Errorf("sqlfake: %d arguments for %d placeholders", len(args), len(cols)+len(upd))
		}
		nr := row{}
		for i, c := range cols {
			nr[c] = args[i]
		}
		pk := fmt.Sprint(nr[t.pk])
		if len(pk) > 255 {
			return nil, fmt.Errorf("sqlfake: Data too long for column '%s'", t.pk)
		}
		if old, ok := t.rows[pk]; ok {
			for i, c := range upd {
				old[c] = args[len(cols)+i]
			}
			return driver.RowsAffected(2), nil
		}
		t.rows[pk] = nr
		return driver.RowsAffected(1), nil
	}
	if m := reDelete.FindStringSubmatch(s.q); m != nil {
		t := s.tables()[m[1]]
		if t == nil {
			return nil, fmt.Errorf("sqlfake: table %s doesn't exist", m[1])
		}
		ps, err := parseWhere(m[2])
		if err != nil {
			return nil, unsupported(s.q)
		}
		n := int64(0)
		for pk, r := range t.rows {
			ok, next := true, 0
			for _, p := range ps {
				b, err := p(r, args, &next)
				if err != nil {
					return nil, err
				}
				ok = ok && b
			}
			if ok {
				delete(t.rows, pk)
				n++
			}
		}
		return driver.RowsAffected(n), nil
	}
	return nil, unsupported(s.q)
}

func (s *stmt) Query(args []driver.Value) (driver.Rows, error) {
	s.c.e.mu.Lock()
	defer s.c.e.mu.Unlock()
	if err := s.fault(); err != nil {
		return nil, err
	}
	m := reSelect.FindStringSubmatch(s.q)
	if m == nil {
		return nil, unsupported(s.q)
	}
	t := s.tables()[m[2]]
	if t == nil {
		return nil, fmt.Errorf("sqlfake: table %s doesn't exist", m[2])
	}
	var cols []string
	for _, c := range strings.Split(m[1], ",") {
		cols = append(cols, strings.TrimSpace(c))
	}
	ps, err := parseWhere(m[3])
	if err != nil {
		return nil, unsupported(s.q)
	}
	var pks []string
	for pk := range t.rows {
		pks = append(pks, pk)
	}
	sort.Strings(pks) // clustered index order
	res := &rows{cols: cols}
	for _, pk := range pks {
		r := t.rows[pk]
		ok, next := true, 0
		for _, p := range ps {
			b, err := p(r, args, &next)
			if err != nil {
				return nil, err
			}
			ok = ok && b
		}
		if ok {
			var vs []driver.Value
			for _, c := range cols {
				vs = append(vs, r[c])
			}
			res.data = append(res.data, vs)
		}
	}
	return res, nil
}

type rows struct {
	cols []string
	data [][]driver.Value
	i    int
}

func (r *rows) Columns() []string { return r.cols }
func (r *rows) Close() error      { return nil }
func (r *rows) Next(dest []driver.Value) error {
	if r.i >= len(r.data) {
		return io.EOF
	}
	copy(dest, r.data[r.i])
	r.i++
	return nil
}
