// Package mq is an in-memory message queue behind Milvus' mqwrapper.Client interface. The real
// mqMsgStream / MqTtMsgStream / msgdispatcher of the pinned milvus pkg run on top of it, so packs,
// positions, BeginTs=0 first packs and seek filtering are exactly Milvus'.
//
// Message id = 8-byte big-endian index of the record inside its topic, starting at 1.
// A Factory can be fenced: every consumer it created stops delivering (what a killed process' consumers do).
package mq

import (
	"context"
	"encoding/binary"
	"fmt"
	"sync"
	"sync/atomic"

	"github.com/milvus-io/milvus/pkg/mq/common"
	"github.com/milvus-io/milvus/pkg/mq/msgstream"
	"github.com/milvus-io/milvus/pkg/mq/msgstream/mqwrapper"

	"github.com/zilliztech/milvus-cdc/core/config"
)

type ID uint64

func (m ID) Serialize() []byte {
	b := make([]byte, 8)
	binary.BigEndian.PutUint64(b, uint64(m))
	return b
}
func (m ID) AtEarliestPosition() bool { return m == 0 }
func (m ID) LessOrEqualThan(b []byte) (bool, error) {
	if len(b) != 8 {
		return false, fmt.Errorf("bad message id")
	}
	return uint64(m) <= binary.BigEndian.Uint64(b), nil
}
func (m ID) Equal(b []byte) (bool, error) {
	if len(b) != 8 {
		return false, fmt.Errorf("bad message id")
	}
	return uint64(m) == binary.BigEndian.Uint64(b), nil
}

// Index decodes a serialized id (0 if malformed).
func Index(b []byte) uint64 {
	if len(b) != 8 {
		return 0
	}
	return binary.BigEndian.Uint64(b)
}

type rec struct {
	topic string
	id    ID
	p     []byte
	props map[string]string
}

func (r *rec) Topic() string                 { return r.topic }
func (r *rec) Properties() map[string]string { return r.props }
func (r *rec) Payload() []byte               { return r.p }
func (r *rec) ID() common.MessageID          { return r.id }

type Broker struct {
	mu   sync.Mutex
	cond *sync.Cond
	logs map[string][]*rec
}

func NewBroker() *Broker {
	b := &Broker{logs: map[string][]*rec{}}
	b.cond = sync.NewCond(&b.mu)
	return b
}

// Len is the number of records of a topic.
func (b *Broker) Len(topic string) int {
	b.mu.Lock()
	defer b.mu.Unlock()
	return len(b.logs[topic])
}

func (b *Broker) wake() {
	b.mu.Lock()
	b.cond.Broadcast()
	b.mu.Unlock()
}

type client struct {
	b *Broker
	f *Factory
}

func (c *client) CreateProducer(ctx context.Context, o common.ProducerOptions) (mqwrapper.Producer, error) {
	return &producer{c.b, o.Topic}, nil
}

func (c *client) Subscribe(ctx context.Context, o mqwrapper.ConsumerOptions) (mqwrapper.Consumer, error) {
	c.b.mu.Lock()
	start := 0
	if o.SubscriptionInitialPosition == common.SubscriptionPositionLatest {
		start = len(c.b.logs[o.Topic])
	}
	c.b.mu.Unlock()
	if c.f != nil {
		c.f.Subscribes.Add(1)
	}
	return &consumer{b: c.b, f: c.f, topic: o.Topic, sub: o.SubscriptionName, next: start, closed: make(chan struct{})}, nil
}
func (c *client) EarliestMessageID() common.MessageID              { return ID(0) }
func (c *client) StringToMsgID(s string) (common.MessageID, error) { return nil, fmt.Errorf("not supported") }
func (c *client) BytesToMsgID(b []byte) (common.MessageID, error) {
	if len(b) != 8 {
		return nil, fmt.Errorf("bad message id")
	}
	return ID(binary.BigEndian.Uint64(b)), nil
}
func (c *client) Close() {}

type producer struct {
	b     *Broker
	topic string
}

func (p *producer) Send(ctx context.Context, m *common.ProducerMessage) (common.MessageID, error) {
	p.b.mu.Lock()
	defer p.b.mu.Unlock()
	id := ID(len(p.b.logs[p.topic]) + 1)
	p.b.logs[p.topic] = append(p.b.logs[p.topic], &rec{p.topic, id, m.Payload, m.Properties})
	p.b.cond.Broadcast()
	return id, nil
}
func (p *producer) Close() {}

type consumer struct {
	b      *Broker
	f      *Factory
	topic  string
	sub    string
	next   int
	once   sync.Once
	ch     chan common.Message
	closed chan struct{}
}

func (c *consumer) Subscription() string { return c.sub }

func (c *consumer) fenced() bool { return c.f != nil && c.f.fenced.Load() }

func (c *consumer) Chan() <-chan common.Message {
	c.once.Do(func() {
		c.ch = make(chan common.Message, 4)
		if c.f != nil {
			c.f.Active.Add(1)
			c.f.track(c, true)
		}
		go func() {
			defer func() {
				if c.f != nil {
					c.f.Active.Add(-1)
					c.f.track(c, false)
				}
			}()
			for {
				c.b.mu.Lock()
				for c.next >= len(c.b.logs[c.topic]) || c.fenced() {
					select {
					case <-c.closed:
						c.b.mu.Unlock()
						return
					default:
					}
					c.b.cond.Wait()
				}
				r := c.b.logs[c.topic][c.next]
				c.next++
				c.b.mu.Unlock()
				select {
				case c.ch <- r:
				case <-c.closed:
					return
				}
			}
		}()
	})
	return c.ch
}

func (c *consumer) Seek(id common.MessageID, inclusive bool) error {
	n := int(id.(ID)) - 1
	if !inclusive {
		n++
	}
	if n < 0 {
		n = 0
	}
	c.b.mu.Lock()
	c.next = n
	c.b.mu.Unlock()
	return nil
}
func (c *consumer) Ack(common.Message) {}
func (c *consumer) Close() {
	select {
	case <-c.closed:
	default:
		close(c.closed)
		c.b.wake()
	}
}
func (c *consumer) GetLatestMsgID() (common.MessageID, error) {
	c.b.mu.Lock()
	defer c.b.mu.Unlock()
	return ID(len(c.b.logs[c.topic])), nil
}
func (c *consumer) CheckTopicValid(string) error { return nil }

// Factory is a msgstream.Factory over the broker.
type Factory struct {
	B          *Broker
	fenced     atomic.Bool
	Subscribes atomic.Int64 // consumers ever created
	Active     atomic.Int64 // consumer pump goroutines alive
	openMu     sync.Mutex
	open       map[*consumer]bool
}

// Open lists topic/subscription of the consumers whose pump is alive.
func (f *Factory) Open() []string {
	f.openMu.Lock()
	defer f.openMu.Unlock()
	var r []string
	for c := range f.open {
		r = append(r, c.topic+"/"+c.sub)
	}
	return r
}

func (f *Factory) track(c *consumer, on bool) {
	f.openMu.Lock()
	defer f.openMu.Unlock()
	if f.open == nil {
		f.open = map[*consumer]bool{}
	}
	if on {
		f.open[c] = true
	} else {
		delete(f.open, c)
	}
}

func NewFactory(b *Broker) *Factory { return &Factory{B: b} }

// Fence stops every consumer created through this factory from delivering anything more.
func (f *Factory) Fence() { f.fenced.Store(true) }

func (f *Factory) NewMsgStream(ctx context.Context) (msgstream.MsgStream, error) {
	return msgstream.NewMqMsgStream(context.Background(), 16, 16, &client{f.B, f}, (&msgstream.ProtoUDFactory{}).NewUnmarshalDispatcher())
}
func (f *Factory) NewTtMsgStream(ctx context.Context) (msgstream.MsgStream, error) {
	return msgstream.NewMqTtMsgStream(context.Background(), 16, 16, &client{f.B, f}, (&msgstream.ProtoUDFactory{}).NewUnmarshalDispatcher())
}
func (f *Factory) NewMsgStreamDisposer(ctx context.Context) func([]string, string) error { return nil }

// Creator implements reader.FactoryCreator.
type Creator struct{ F msgstream.Factory }

func (c Creator) NewPmsFactory(cfg *config.PulsarConfig) msgstream.Factory { return c.F }
func (c Creator) NewKmsFactory(cfg *config.KafkaConfig) msgstream.Factory  { return c.F }
