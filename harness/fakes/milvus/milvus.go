// Package milvus is an in-process stateful fake of the downstream Milvus (gRPC MilvusServiceServer).
// It sits underneath the REAL SDK client, MilvusDataHandler and reader.TargetClient. Every RPC is recorded with
// the database it was really routed to (the `dbname` request metadata) and the credentials it carried; a hook
// can fail or hold any call before or after it took effect.
package milvus

import (
	"context"
	"encoding/base64"
	"encoding/binary"
	"fmt"
	"google.golang.org/grpc/peer"
	"net"
	"sort"
	"strings"
	"sync"

	"google.golang.org/grpc"
	"google.golang.org/grpc/metadata"
	"google.golang.org/protobuf/proto"

	"github.com/milvus-io/milvus-proto/go-api/v2/commonpb"
	"github.com/milvus-io/milvus-proto/go-api/v2/milvuspb"
	"github.com/milvus-io/milvus-proto/go-api/v2/msgpb"
	"github.com/milvus-io/milvus-proto/go-api/v2/schemapb"
)

type Coll struct {
	ID       int64
	DB       string
	Name     string
	Parts    map[string]int64
	VCh, PCh []string
	Schema   *schemapb.CollectionSchema
	CreateTs uint64 // replication stamp of the create request
}

// Msg is one decoded element of an accepted ReplicateMessage request.
type Msg struct {
	Type       commonpb.MsgType
	Collection string
	DB         string
	Partition  string
	CollID     int64
	PartID     int64
	Shard      string
	RowIDs     []int64
	PKs        []int64
	Ts         []uint64
	BaseTs     uint64
	Raw        []byte
}

// Pack is one ReplicateMessage request.
type Pack struct {
	Seq      int
	Channel  string
	BeginTs  uint64
	EndTs    uint64
	Msgs     []Msg
	Start    []*msgpb.MsgPosition
	End      []*msgpb.MsgPosition
	Accepted bool
}

type Call struct {
	Seq    int
	Method string
	DB     string // dbname metadata
	Auth   string // authorization metadata (base64 of the token)
	Info   string
	Failed bool
}

// CallCtx is handed to the hooks.
type CallCtx struct {
	Seq    int
	Method string
	DB     string
	Req    proto.Message
	Pack   *Pack  // for ReplicateMessage
	Peer   string // remote address of the connection the call arrived on
}

type Server struct {
	mu     sync.Mutex
	dbs    map[string]map[string]*Coll
	nextID int64
	nColl  int
	NPCh   int
	Skew   bool
	Prefix string
	calls  []Call
	packs  []*Pack
	seq    int

	// Before is called (without the server lock) before a call takes effect; a non-nil error fails the call
	// without effect. After is called after the effect and before the answer; an error turns the answer into a failure
	// although the effect happened (an unacknowledged write).
	Before func(*CallCtx) error
	After  func(*CallCtx) error

	lis net.Listener
	gs  *grpc.Server
	srv *service
}

type service struct {
	milvuspb.UnimplementedMilvusServiceServer
	s *Server
}

func New(prefix string, npch int) *Server {
	s := &Server{dbs: map[string]map[string]*Coll{"default": {}}, nextID: 9000, NPCh: npch, Prefix: prefix}
	s.srv = &service{s: s}
	return s
}

// Start listens on a free loopback port and returns the URI for a create request.
func (s *Server) Start() (string, error) { return s.StartOn("127.0.0.1") }

// StartOn listens on a free port of the given loopback address (any 127.x.y.z works on Linux). Harnesses that create many
// servers in one process use a distinct address per server, so that a reused ephemeral port never yields an already used URI
// (the code under test keys process-wide state by the target URI).
func (s *Server) StartOn(host string) (string, error) {
	lis, err := net.Listen("tcp", host+":0")
	if err != nil {
		return "", err
	}
	s.lis = lis
	s.gs = grpc.NewServer()
	milvuspb.RegisterMilvusServiceServer(s.gs, s.srv)
	go func() { _ = s.gs.Serve(lis) }()
	return "http://" + lis.Addr().String(), nil
}

func (s *Server) Addr() string { return s.lis.Addr().String() }

func (s *Server) Stop() {
	if s.gs != nil {
		s.gs.Stop()
	}
}

func (s *Server) Calls() []Call {
	s.mu.Lock()
	defer s.mu.Unlock()
	return append([]Call(nil), s.calls...)
}

func (s *Server) NumCalls() int {
	s.mu.Lock()
	defer s.mu.Unlock()
	return len(s.calls)
}

func (s *Server) Packs() []*Pack {
	s.mu.Lock()
	defer s.mu.Unlock()
	return append([]*Pack(nil), s.packs...)
}

func (s *Server) Collection(db, name string) *Coll {
	s.mu.Lock()
	defer s.mu.Unlock()
	if d := s.dbs[db]; d != nil {
		return d[name]
	}
	return nil
}

func (s *Server) Collections() []*Coll {
	s.mu.Lock()
	defer s.mu.Unlock()
	var r []*Coll
	for _, d := range s.dbs {
		for _, c := range d {
			r = append(r, c)
		}
	}
	sort.Slice(r, func(i, j int) bool { return r[i].ID < r[j].ID })
	return r
}

// AddCollection pre-creates a downstream collection (as if replicated earlier).
func (s *Server) AddCollection(db, name string, shards int, parts ...string) *Coll {
	s.mu.Lock()
	defer s.mu.Unlock()
	return s.addColl(db, name, shards, &schemapb.CollectionSchema{Name: name}, 0, parts...)
}

// AddPartition adds a partition to an existing downstream collection.
func (s *Server) AddPartition(db, coll, part string) {
	s.mu.Lock()
	defer s.mu.Unlock()
	if d := s.dbs[db]; d != nil && d[coll] != nil {
		c := d[coll]
		if _, ok := c.Parts[part]; !ok {
			c.Parts[part] = c.ID*100 + 10 + int64(len(c.Parts))
		}
	}
}

func (s *Server) addColl(db, name string, shards int, sch *schemapb.CollectionSchema, ts uint64, parts ...string) *Coll {
	if s.dbs[db] == nil {
		s.dbs[db] = map[string]*Coll{}
	}
	s.nextID++
	id := s.nextID
	c := &Coll{ID: id, DB: db, Name: name, Parts: map[string]int64{"_default": id*100 + 1}, Schema: sch, CreateTs: ts}
	for i, p := range parts {
		c.Parts[p] = id*100 + 2 + int64(i)
	}
	// aligned placement by default (shard i on physical channel i, like a source with the same channel count);
	// Skew rotates the first channel per collection so that collections sharing a source channel land on different target channels
	start := 0
	if s.Skew {
		start = s.nColl
	}
	s.nColl++
	for i := 0; i < shards; i++ {
		pc := fmt.Sprintf("%s-dml_%d", s.Prefix, (start+i)%s.NPCh)
		c.PCh = append(c.PCh, pc)
		c.VCh = append(c.VCh, fmt.Sprintf("%s_%dv%d", pc, id, i))
	}
	s.dbs[db][name] = c
	return c
}

func md(ctx context.Context, key string) string {
	m, _ := metadata.FromIncomingContext(ctx)
	if v := m.Get(key); len(v) > 0 {
		return v[0]
	}
	return ""
}

func okStatus() *commonpb.Status { return &commonpb.Status{} }
func failStatus(err error) *commonpb.Status {
	return &commonpb.Status{ErrorCode: commonpb.ErrorCode_UnexpectedError, Code: 65535, Reason: err.Error()}
}
func collNotFound(n string) *commonpb.Status {
	return &commonpb.Status{ErrorCode: commonpb.ErrorCode_CollectionNotExists, Code: 100, Reason: "collection not found[collection=" + n + "]"}
}
func dbNotFound(n string) *commonpb.Status {
	return &commonpb.Status{ErrorCode: commonpb.ErrorCode_UnexpectedError, Code: 800, Reason: "database not found[database=" + n + "]"}
}

// begin records the call and runs the Before hook. It returns the call context and the hook's error.
func (s *Server) begin(ctx context.Context, method, info string, req proto.Message, pack *Pack) (*CallCtx, error) {
	db := md(ctx, "dbname")
	if db == "" {
		db = "default"
	}
	s.mu.Lock()
	s.seq++
	cc := &CallCtx{Seq: s.seq, Method: method, DB: db, Req: req, Pack: pack}
	if pr, ok := peer.FromContext(ctx); ok && pr.Addr != nil {
		cc.Peer = pr.Addr.String() // the reader's and the writer's SDK clients use different connections
	}
	s.calls = append(s.calls, Call{Seq: cc.Seq, Method: method, DB: db, Auth: md(ctx, "authorization"), Info: info})
	idx := len(s.calls) - 1
	hook := s.Before
	s.mu.Unlock()
	if hook != nil {
		if err := hook(cc); err != nil {
			s.mu.Lock()
			s.calls[idx].Failed = true
			s.mu.Unlock()
			return cc, err
		}
	}
	return cc, nil
}

func (s *Server) end(cc *CallCtx) error {
	s.mu.Lock()
	hook := s.After
	s.mu.Unlock()
	if hook != nil {
		if err := hook(cc); err != nil {
			s.mu.Lock()
			for i := range s.calls {
				if s.calls[i].Seq == cc.Seq {
					s.calls[i].Failed = true
				}
			}
			s.mu.Unlock()
			return err
		}
	}
	return nil
}

// simple runs a status-only mutating RPC.
func (s *Server) simple(ctx context.Context, method, info string, req proto.Message, effect func(db string) *commonpb.Status) (*commonpb.Status, error) {
	cc, err := s.begin(ctx, method, info, req, nil)
	if err != nil {
		return failStatus(err), nil
	}
	s.mu.Lock()
	st := effect(cc.DB)
	s.mu.Unlock()
	if st.GetErrorCode() != commonpb.ErrorCode_Success || st.GetCode() != 0 {
		return st, nil
	}
	if err := s.end(cc); err != nil {
		return failStatus(err), nil
	}
	return st, nil
}

func (v *service) Connect(ctx context.Context, r *milvuspb.ConnectRequest) (*milvuspb.ConnectResponse, error) {
	s := v.s
	s.mu.Lock()
	s.seq++
	s.calls = append(s.calls, Call{Seq: s.seq, Method: "Connect", DB: md(ctx, "dbname"), Auth: md(ctx, "authorization")})
	s.mu.Unlock()
	return &milvuspb.ConnectResponse{Status: okStatus(), ServerInfo: &commonpb.ServerInfo{}, Identifier: 1}, nil
}

func (v *service) DescribeCollection(ctx context.Context, r *milvuspb.DescribeCollectionRequest) (*milvuspb.DescribeCollectionResponse, error) {
	s := v.s
	cc, err := s.begin(ctx, "DescribeCollection", r.CollectionName, r, nil)
	if err != nil {
		return &milvuspb.DescribeCollectionResponse{Status: failStatus(err)}, nil
	}
	s.mu.Lock()
	defer s.mu.Unlock()
	d := s.dbs[cc.DB]
	if d == nil {
		return &milvuspb.DescribeCollectionResponse{Status: dbNotFound(cc.DB)}, nil
	}
	c := d[r.CollectionName]
	if c == nil {
		return &milvuspb.DescribeCollectionResponse{Status: collNotFound(r.CollectionName)}, nil
	}
	return &milvuspb.DescribeCollectionResponse{Status: okStatus(), CollectionID: c.ID, CollectionName: c.Name, DbName: c.DB, Schema: c.Schema,
		VirtualChannelNames: c.VCh, PhysicalChannelNames: c.PCh, ShardsNum: int32(len(c.VCh))}, nil
}

func (v *service) ShowPartitions(ctx context.Context, r *milvuspb.ShowPartitionsRequest) (*milvuspb.ShowPartitionsResponse, error) {
	s := v.s
	cc, err := s.begin(ctx, "ShowPartitions", r.CollectionName, r, nil)
	if err != nil {
		return &milvuspb.ShowPartitionsResponse{Status: failStatus(err)}, nil
	}
	s.mu.Lock()
	defer s.mu.Unlock()
	d := s.dbs[cc.DB]
	if d == nil {
		return &milvuspb.ShowPartitionsResponse{Status: dbNotFound(cc.DB)}, nil
	}
	c := d[r.CollectionName]
	if c == nil {
		return &milvuspb.ShowPartitionsResponse{Status: collNotFound(r.CollectionName)}, nil
	}
	resp := &milvuspb.ShowPartitionsResponse{Status: okStatus()}
	names := make([]string, 0, len(c.Parts))
	for n := range c.Parts {
		names = append(names, n)
	}
	sort.Strings(names)
	for _, n := range names {
		resp.PartitionNames = append(resp.PartitionNames, n)
		resp.PartitionIDs = append(resp.PartitionIDs, c.Parts[n])
		resp.CreatedTimestamps = append(resp.CreatedTimestamps, 1)
		resp.CreatedUtcTimestamps = append(resp.CreatedUtcTimestamps, 1)
		resp.InMemoryPercentages = append(resp.InMemoryPercentages, 0)
	}
	return resp, nil
}

func (v *service) ListDatabases(ctx context.Context, r *milvuspb.ListDatabasesRequest) (*milvuspb.ListDatabasesResponse, error) {
	s := v.s
	if _, err := s.begin(ctx, "ListDatabases", "", r, nil); err != nil {
		return &milvuspb.ListDatabasesResponse{Status: failStatus(err)}, nil
	}
	s.mu.Lock()
	defer s.mu.Unlock()
	var names []string
	for n := range s.dbs {
		names = append(names, n)
	}
	sort.Strings(names)
	return &milvuspb.ListDatabasesResponse{Status: okStatus(), DbNames: names, CreatedTimestamp: make([]uint64, len(names))}, nil
}

func (v *service) ShowCollections(ctx context.Context, r *milvuspb.ShowCollectionsRequest) (*milvuspb.ShowCollectionsResponse, error) {
	s := v.s
	cc, err := s.begin(ctx, "ShowCollections", "", r, nil)
	if err != nil {
		return &milvuspb.ShowCollectionsResponse{Status: failStatus(err)}, nil
	}
	s.mu.Lock()
	defer s.mu.Unlock()
	resp := &milvuspb.ShowCollectionsResponse{Status: okStatus()}
	var names []string
	for n := range s.dbs[cc.DB] {
		names = append(names, n)
	}
	sort.Strings(names)
	for _, n := range names {
		c := s.dbs[cc.DB][n]
		resp.CollectionNames = append(resp.CollectionNames, n)
		resp.CollectionIds = append(resp.CollectionIds, c.ID)
		resp.CreatedTimestamps = append(resp.CreatedTimestamps, 1)
		resp.CreatedUtcTimestamps = append(resp.CreatedUtcTimestamps, 1)
		resp.InMemoryPercentages = append(resp.InMemoryPercentages, 0)
		resp.QueryServiceAvailable = append(resp.QueryServiceAvailable, false)
	}
	return resp, nil
}

func (v *service) CreateCollection(ctx context.Context, r *milvuspb.CreateCollectionRequest) (*commonpb.Status, error) {
	s := v.s
	return s.simple(ctx, "CreateCollection", r.CollectionName, r, func(db string) *commonpb.Status {
		if s.dbs[db] == nil {
			return dbNotFound(db)
		}
		if s.dbs[db][r.CollectionName] != nil {
			return okStatus()
		}
		sch := &schemapb.CollectionSchema{}
		_ = proto.Unmarshal(r.Schema, sch)
		n := int(r.ShardsNum)
		if n == 0 {
			n = 1
		}
		s.addColl(db, r.CollectionName, n, sch, r.GetBase().GetReplicateInfo().GetMsgTimestamp())
		return okStatus()
	})
}

func (v *service) DropCollection(ctx context.Context, r *milvuspb.DropCollectionRequest) (*commonpb.Status, error) {
	s := v.s
	return s.simple(ctx, "DropCollection", r.CollectionName, r, func(db string) *commonpb.Status {
		if s.dbs[db] != nil {
			delete(s.dbs[db], r.CollectionName)
		}
		return okStatus()
	})
}

func (v *service) HasCollection(ctx context.Context, r *milvuspb.HasCollectionRequest) (*milvuspb.BoolResponse, error) {
	s := v.s
	cc, err := s.begin(ctx, "HasCollection", r.CollectionName, r, nil)
	if err != nil {
		return &milvuspb.BoolResponse{Status: failStatus(err)}, nil
	}
	s.mu.Lock()
	defer s.mu.Unlock()
	return &milvuspb.BoolResponse{Status: okStatus(), Value: s.dbs[cc.DB] != nil && s.dbs[cc.DB][r.CollectionName] != nil}, nil
}

func (v *service) CreatePartition(ctx context.Context, r *milvuspb.CreatePartitionRequest) (*commonpb.Status, error) {
	s := v.s
	return s.simple(ctx, "CreatePartition", r.CollectionName+"/"+r.PartitionName, r, func(db string) *commonpb.Status {
		if s.dbs[db] == nil || s.dbs[db][r.CollectionName] == nil {
			return collNotFound(r.CollectionName)
		}
		c := s.dbs[db][r.CollectionName]
		if _, ok := c.Parts[r.PartitionName]; !ok {
			c.Parts[r.PartitionName] = c.ID*100 + 10 + int64(len(c.Parts))
		}
		return okStatus()
	})
}

func (v *service) DropPartition(ctx context.Context, r *milvuspb.DropPartitionRequest) (*commonpb.Status, error) {
	s := v.s
	return s.simple(ctx, "DropPartition", r.CollectionName+"/"+r.PartitionName, r, func(db string) *commonpb.Status {
		if s.dbs[db] == nil || s.dbs[db][r.CollectionName] == nil {
			return collNotFound(r.CollectionName)
		}
		delete(s.dbs[db][r.CollectionName].Parts, r.PartitionName)
		return okStatus()
	})
}

func (v *service) HasPartition(ctx context.Context, r *milvuspb.HasPartitionRequest) (*milvuspb.BoolResponse, error) {
	s := v.s
	cc, err := s.begin(ctx, "HasPartition", r.CollectionName+"/"+r.PartitionName, r, nil)
	if err != nil {
		return &milvuspb.BoolResponse{Status: failStatus(err)}, nil
	}
	s.mu.Lock()
	defer s.mu.Unlock()
	if s.dbs[cc.DB] == nil || s.dbs[cc.DB][r.CollectionName] == nil {
		return &milvuspb.BoolResponse{Status: collNotFound(r.CollectionName)}, nil
	}
	_, ok := s.dbs[cc.DB][r.CollectionName].Parts[r.PartitionName]
	return &milvuspb.BoolResponse{Status: okStatus(), Value: ok}, nil
}

func (v *service) needColl(name string) func(db string) *commonpb.Status {
	s := v.s
	return func(db string) *commonpb.Status {
		if s.dbs[db] == nil || s.dbs[db][name] == nil {
			return collNotFound(name)
		}
		return okStatus()
	}
}

func (v *service) CreateIndex(ctx context.Context, r *milvuspb.CreateIndexRequest) (*commonpb.Status, error) {
	return v.s.simple(ctx, "CreateIndex", r.CollectionName+"/"+r.IndexName, r, v.needColl(r.CollectionName))
}
func (v *service) DescribeIndex(ctx context.Context, r *milvuspb.DescribeIndexRequest) (*milvuspb.DescribeIndexResponse, error) {
	return &milvuspb.DescribeIndexResponse{Status: okStatus(), IndexDescriptions: []*milvuspb.IndexDescription{{IndexName: r.IndexName, FieldName: r.FieldName, State: commonpb.IndexState_Finished}}}, nil
}
func (v *service) DropIndex(ctx context.Context, r *milvuspb.DropIndexRequest) (*commonpb.Status, error) {
	return v.s.simple(ctx, "DropIndex", r.CollectionName+"/"+r.IndexName, r, v.needColl(r.CollectionName))
}
func (v *service) AlterIndex(ctx context.Context, r *milvuspb.AlterIndexRequest) (*commonpb.Status, error) {
	return v.s.simple(ctx, "AlterIndex", r.CollectionName+"/"+r.IndexName, r, v.needColl(r.CollectionName))
}
func (v *service) LoadCollection(ctx context.Context, r *milvuspb.LoadCollectionRequest) (*commonpb.Status, error) {
	return v.s.simple(ctx, "LoadCollection", r.CollectionName, r, v.needColl(r.CollectionName))
}
func (v *service) ReleaseCollection(ctx context.Context, r *milvuspb.ReleaseCollectionRequest) (*commonpb.Status, error) {
	return v.s.simple(ctx, "ReleaseCollection", r.CollectionName, r, v.needColl(r.CollectionName))
}
func (v *service) LoadPartitions(ctx context.Context, r *milvuspb.LoadPartitionsRequest) (*commonpb.Status, error) {
	return v.s.simple(ctx, "LoadPartitions", r.CollectionName, r, v.needColl(r.CollectionName))
}
func (v *service) ReleasePartitions(ctx context.Context, r *milvuspb.ReleasePartitionsRequest) (*commonpb.Status, error) {
	return v.s.simple(ctx, "ReleasePartitions", r.CollectionName, r, v.needColl(r.CollectionName))
}
func (v *service) Flush(ctx context.Context, r *milvuspb.FlushRequest) (*milvuspb.FlushResponse, error) {
	st, _ := v.s.simple(ctx, "Flush", strings.Join(r.CollectionNames, ","), r, func(db string) *commonpb.Status { return okStatus() })
	return &milvuspb.FlushResponse{Status: st}, nil
}
func (v *service) CreateDatabase(ctx context.Context, r *milvuspb.CreateDatabaseRequest) (*commonpb.Status, error) {
	s := v.s
	return s.simple(ctx, "CreateDatabase", r.DbName, r, func(db string) *commonpb.Status {
		if s.dbs[r.DbName] == nil {
			s.dbs[r.DbName] = map[string]*Coll{}
		}
		return okStatus()
	})
}
func (v *service) DropDatabase(ctx context.Context, r *milvuspb.DropDatabaseRequest) (*commonpb.Status, error) {
	s := v.s
	return s.simple(ctx, "DropDatabase", r.DbName, r, func(db string) *commonpb.Status {
		delete(s.dbs, r.DbName)
		return okStatus()
	})
}
func (v *service) AlterDatabase(ctx context.Context, r *milvuspb.AlterDatabaseRequest) (*commonpb.Status, error) {
	return v.s.simple(ctx, "AlterDatabase", r.DbName, r, func(db string) *commonpb.Status { return okStatus() })
}
func (v *service) CreateCredential(ctx context.Context, r *milvuspb.CreateCredentialRequest) (*commonpb.Status, error) {
	return v.s.simple(ctx, "CreateCredential", r.Username, r, func(db string) *commonpb.Status { return okStatus() })
}
func (v *service) DeleteCredential(ctx context.Context, r *milvuspb.DeleteCredentialRequest) (*commonpb.Status, error) {
	return v.s.simple(ctx, "DeleteCredential", r.Username, r, func(db string) *commonpb.Status { return okStatus() })
}
func (v *service) UpdateCredential(ctx context.Context, r *milvuspb.UpdateCredentialRequest) (*commonpb.Status, error) {
	return v.s.simple(ctx, "UpdateCredential", r.Username, r, func(db string) *commonpb.Status { return okStatus() })
}
func (v *service) CreateRole(ctx context.Context, r *milvuspb.CreateRoleRequest) (*commonpb.Status, error) {
	return v.s.simple(ctx, "CreateRole", r.GetEntity().GetName(), r, func(db string) *commonpb.Status { return okStatus() })
}
func (v *service) DropRole(ctx context.Context, r *milvuspb.DropRoleRequest) (*commonpb.Status, error) {
	return v.s.simple(ctx, "DropRole", r.RoleName, r, func(db string) *commonpb.Status { return okStatus() })
}
func (v *service) OperateUserRole(ctx context.Context, r *milvuspb.OperateUserRoleRequest) (*commonpb.Status, error) {
	return v.s.simple(ctx, "OperateUserRole", r.Username+"/"+r.RoleName, r, func(db string) *commonpb.Status { return okStatus() })
}
func (v *service) OperatePrivilege(ctx context.Context, r *milvuspb.OperatePrivilegeRequest) (*commonpb.Status, error) {
	return v.s.simple(ctx, "OperatePrivilege", "", r, func(db string) *commonpb.Status { return okStatus() })
}

func int64PKs(ids *schemapb.IDs) []int64 {
	if ids == nil || ids.GetIntId() == nil {
		return nil
	}
	return append([]int64(nil), ids.GetIntId().GetData()...)
}

func decodeMsg(b []byte) Msg {
	h := &commonpb.MsgHeader{}
	_ = proto.Unmarshal(b, h)
	m := Msg{Type: h.GetBase().GetMsgType(), BaseTs: h.GetBase().GetTimestamp(), Raw: b}
	switch m.Type {
	case commonpb.MsgType_Insert:
		r := &msgpb.InsertRequest{}
		if proto.Unmarshal(b, r) == nil {
			m.Collection, m.DB, m.Partition, m.CollID, m.PartID, m.Shard = r.CollectionName, r.DbName, r.PartitionName, r.CollectionID, r.PartitionID, r.ShardName
			m.RowIDs, m.Ts = r.RowIDs, r.Timestamps
			for _, f := range r.FieldsData {
				if f.GetFieldName() == "pk" {
					m.PKs = append(m.PKs, f.GetScalars().GetLongData().GetData()...)
				}
			}
		}
	case commonpb.MsgType_Delete:
		r := &msgpb.DeleteRequest{}
		if proto.Unmarshal(b, r) == nil {
			m.Collection, m.DB, m.Partition, m.CollID, m.PartID, m.Shard = r.CollectionName, r.DbName, r.PartitionName, r.CollectionID, r.PartitionID, r.ShardName
			m.PKs, m.Ts = int64PKs(r.PrimaryKeys), r.Timestamps
			if len(m.PKs) == 0 {
				m.PKs = r.Int64PrimaryKeys
			}
		}
	case commonpb.MsgType_DropCollection:
		r := &msgpb.DropCollectionRequest{}
		if proto.Unmarshal(b, r) == nil {
			m.Collection, m.DB, m.CollID = r.CollectionName, r.DbName, r.CollectionID
		}
	case commonpb.MsgType_DropPartition:
		r := &msgpb.DropPartitionRequest{}
		if proto.Unmarshal(b, r) == nil {
			m.Collection, m.DB, m.Partition, m.CollID, m.PartID = r.CollectionName, r.DbName, r.PartitionName, r.CollectionID, r.PartitionID
		}
	}
	return m
}

func (v *service) ReplicateMessage(ctx context.Context, r *milvuspb.ReplicateMessageRequest) (*milvuspb.ReplicateMessageResponse, error) {
	s := v.s
	p := &Pack{Channel: r.ChannelName, BeginTs: r.BeginTs, EndTs: r.EndTs, Start: r.StartPositions, End: r.EndPositions}
	for _, b := range r.Msgs {
		p.Msgs = append(p.Msgs, decodeMsg(b))
	}
	cc, err := s.begin(ctx, "ReplicateMessage", r.ChannelName, r, p)
	p.Seq = cc.Seq
	if err != nil {
		s.mu.Lock()
		s.packs = append(s.packs, p)
		s.mu.Unlock()
		return &milvuspb.ReplicateMessageResponse{Status: failStatus(err)}, nil
	}
	s.mu.Lock()
	p.Accepted = true
	s.packs = append(s.packs, p)
	s.mu.Unlock()
	if err := s.end(cc); err != nil {
		return &milvuspb.ReplicateMessageResponse{Status: failStatus(err)}, nil
	}
	pos := make([]byte, 8)
	binary.BigEndian.PutUint64(pos, uint64(cc.Seq))
	return &milvuspb.ReplicateMessageResponse{Status: okStatus(), Position: base64.StdEncoding.EncodeToString(pos)}, nil
}
