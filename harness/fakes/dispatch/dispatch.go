// Package dispatch: fake msgdispatcher.Client (one unbuffered Go channel per registered vchannel) and a fake
// msgstream.Factory that satisfies the connection check of the stream creator.
package dispatch

import (
	"context"
	"fmt"
	"sync"

	"google.golang.org/protobuf/proto"

	"github.com/milvus-io/milvus-proto/go-api/v2/msgpb"
	"github.com/milvus-io/milvus/pkg/mq/common"
	"github.com/milvus-io/milvus/pkg/mq/msgdispatcher"
	"github.com/milvus-io/milvus/pkg/mq/msgstream"
)

type Stream struct {
	VChannel string
	Pos      *msgpb.MsgPosition
	SubPos   common.SubscriptionInitialPosition
	ch       chan *msgstream.MsgPack
	done     chan struct{}
}

type Client struct {
	mu        sync.Mutex
	streams   map[string]*Stream
	Registers []*Stream // every Register call in order (including re-registrations)
	Dereg     []string
	// FailRegister, when set, makes Register of that vchannel fail.
	FailRegister func(vchannel string) error
	// HoldRegister, when set, is called (without the client lock) before a registration is recorded; it may block to
	// model a slow message-queue subscription.
	HoldRegister func(vchannel string)
}

func NewClient() *Client { return &Client{streams: map[string]*Stream{}} }

func (c *Client) Register(ctx context.Context, cfg *msgdispatcher.StreamConfig) (<-chan *msgstream.MsgPack, error) {
	c.mu.Lock()
	hold := c.HoldRegister
	c.mu.Unlock()
	if hold != nil {
		hold(cfg.VChannel)
	}
	c.mu.Lock()
	defer c.mu.Unlock()
	if c.FailRegister != nil {
		if err := c.FailRegister(cfg.VChannel); err != nil {
			return nil, err
		}
	}
	if old := c.streams[cfg.VChannel]; old != nil {
		select {
		case <-old.done:
		default:
			return nil, fmt.Errorf("vchannel %s is already registered", cfg.VChannel)
		}
	}
	s := &Stream{VChannel: cfg.VChannel, SubPos: cfg.SubPos, ch: make(chan *msgstream.MsgPack), done: make(chan struct{})}
	if cfg.Pos != nil {
		s.Pos = proto.Clone(cfg.Pos).(*msgpb.MsgPosition)
	}
	c.streams[cfg.VChannel] = s
	c.Registers = append(c.Registers, s)
	return s.ch, nil
}

func (c *Client) Deregister(vchannel string) {
	c.mu.Lock()
	defer c.mu.Unlock()
	c.Dereg = append(c.Dereg, vchannel)
	if s := c.streams[vchannel]; s != nil {
		select {
		case <-s.done:
		default:
			close(s.done)
		}
	}
}

func (c *Client) Close() {}

// Registered reports whether vchannel currently has a live registration.
func (c *Client) Registered(vchannel string) bool {
	c.mu.Lock()
	defer c.mu.Unlock()
	s := c.streams[vchannel]
	if s == nil {
		return false
	}
	select {
	case <-s.done:
		return false
	default:
		return true
	}
}

// RegisterCount returns how many times vchannel was registered.
func (c *Client) RegisterCount(vchannel string) int {
	c.mu.Lock()
	defer c.mu.Unlock()
	n := 0
	for _, s := range c.Registers {
		if s.VChannel == vchannel {
			n++
		}
	}
	return n
}

// Feed hands one pack to the consumer of vchannel. It blocks until the consumer has taken it and returns
// false if the stream is not (or no longer) registered or ctx ends first.
func (c *Client) Feed(ctx context.Context, vchannel string, p *msgstream.MsgPack) bool {
	c.mu.Lock()
	s := c.streams[vchannel]
	c.mu.Unlock()
	if s == nil {
		return false
	}
	select {
	case <-s.done:
		return false
	default:
	}
	select {
	case s.ch <- p:
		return true
	case <-s.done:
		return false
	case <-ctx.Done():
		return false
	}
}

var _ msgdispatcher.Client = (*Client)(nil)

// ---- factory for CheckConnection

type fakeStream struct{ msgstream.MsgStream }

// FailConnect makes the next n connection checks (AsConsumer of a stream of the factory) on the given physical channel fail.
// Process-wide like the factory; cases run one at a time and clear it with ResetFailConnect.
func FailConnect(pchannel string, n int) {
	failMu.Lock()
	defer failMu.Unlock()
	failConnect[pchannel] = n
}

func ResetFailConnect() {
	failMu.Lock()
	defer failMu.Unlock()
	failConnect = map[string]int{}
}

var (
	failMu      sync.Mutex
	failConnect = map[string]int{}
)

func (fakeStream) AsConsumer(ctx context.Context, channels []string, subName string, position common.SubscriptionInitialPosition) error {
	failMu.Lock()
	defer failMu.Unlock()
	for _, c := range channels {
		if failConnect[c] > 0 {
			failConnect[c]--
			return fmt.Errorf("injected: cannot connect to the message queue (channel %s)", c)
		}
	}
	return nil
}

func (fakeStream) Seek(ctx context.Context, msgPositions []*msgstream.MsgPosition, includeCurrentMsg bool) error {
	return nil
}
func (fakeStream) Close() {}

// NewFactory returns a msgstream.Factory whose streams accept AsConsumer/Seek/Close (all the manager needs).
func NewFactory() msgstream.Factory {
	f := msgstream.NewMockMqFactory()
	f.NewMsgStreamFunc = func(ctx context.Context) (msgstream.MsgStream, error) { return fakeStream{}, nil }
	return f
}
