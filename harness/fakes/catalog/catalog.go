// Package catalog writes a Milvus source catalog (the etcd keys EtcdOp reads) into an etcd server.
package catalog

import (
	"context"
	"fmt"
	"time"

	clientv3 "go.etcd.io/etcd/client/v3"
	"google.golang.org/protobuf/proto"

	"github.com/milvus-io/milvus-proto/go-api/v2/commonpb"
	"github.com/milvus-io/milvus-proto/go-api/v2/schemapb"
	"github.com/milvus-io/milvus/pkg/util/typeutil"

	"github.com/zilliztech/milvus-cdc/core/pb"
)

var Tombstone = []byte{0xE2, 0x9B, 0xBC}

type Writer struct {
	Cli  *clientv3.Client
	Root string // e.g. "case-17" (EtcdOp root path); meta sub path is "meta"
}

func (w *Writer) put(key string, val []byte) error {
	ctx, cancel := context.WithTimeout(context.Background(), 10*time.Second)
	defer cancel()
	_, err := w.Cli.Put(ctx, key, string(val))
	return err
}

func (w *Writer) DBKey(id int64) string {
	return fmt.Sprintf("%s/meta/root-coord/database/db-info/%d", w.Root, id)
}

func (w *Writer) CollKey(dbID, collID int64) string {
	return fmt.Sprintf("%s/meta/root-coord/database/collection-info/%d/%d", w.Root, dbID, collID)
}

func (w *Writer) PartKey(collID, partID int64) string {
	return fmt.Sprintf("%s/meta/root-coord/partitions/%d/%d", w.Root, collID, partID)
}

func (w *Writer) PutDatabase(id int64, name string, tombstone bool) error {
	if tombstone {
		return w.put(w.DBKey(id), Tombstone)
	}
	b, _ := proto.Marshal(&pb.DatabaseInfo{Id: id, Name: name, State: pb.DatabaseState_DatabaseCreated})
	return w.put(w.DBKey(id), b)
}

// PutCollection writes the collection record (nil info = tombstone) and, for non-tombstones, one user field.
func (w *Writer) PutCollection(dbID, collID int64, info *pb.CollectionInfo) error {
	if info == nil {
		return w.put(w.CollKey(dbID, collID), Tombstone)
	}
	b, _ := proto.Marshal(info)
	if err := w.put(w.CollKey(dbID, collID), b); err != nil {
		return err
	}
	return nil
}

func (w *Writer) PutFields(collID int64) error {
	f, _ := proto.Marshal(&schemapb.FieldSchema{FieldID: 100, Name: "pk", IsPrimaryKey: true, DataType: schemapb.DataType_Int64})
	if err := w.put(fmt.Sprintf("%s/meta/root-coord/fields/%d/100", w.Root, collID), f); err != nil {
		return err
	}
	// a vector field: the downstream SDK refuses to create a collection without one (client-side schema validation)
	v, _ := proto.Marshal(&schemapb.FieldSchema{FieldID: 101, Name: "vec", DataType: schemapb.DataType_FloatVector,
		TypeParams: []*commonpb.KeyValuePair{{Key: "dim", Value: "4"}}})
	if err := w.put(fmt.Sprintf("%s/meta/root-coord/fields/%d/101", w.Root, collID), v); err != nil {
		return err
	}
	g, _ := proto.Marshal(&schemapb.FieldSchema{FieldID: 1, Name: "Timestamp", DataType: schemapb.DataType_Int64})
	return w.put(fmt.Sprintf("%s/meta/root-coord/fields/%d/1", w.Root, collID), g)
}

func (w *Writer) PutPartition(collID, partID int64, info *pb.PartitionInfo) error {
	if info == nil {
		return w.put(w.PartKey(collID, partID), Tombstone)
	}
	b, _ := proto.Marshal(info)
	return w.put(w.PartKey(collID, partID), b)
}

// PutTSO writes the source's current time (root-coord TSO key).
func (w *Writer) PutTSO(t time.Time) error {
	return w.put(w.Root+"/kv/gid/timestamp", typeutil.Uint64ToBytesBigEndian(uint64(t.UnixNano())))
}

// Clear removes everything below the root.
func (w *Writer) Clear() {
	ctx, cancel := context.WithTimeout(context.Background(), 10*time.Second)
	defer cancel()
	_, _ = w.Cli.Delete(ctx, w.Root+"/", clientv3.WithPrefix())
}
