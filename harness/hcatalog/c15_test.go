package hcatalog

// C15 — the start-up snapshot of dropped objects gives correct skip horizons.
//
// A generated source catalog is written into a real (embedded) etcd; the real EtcdOp computes GetAllDroppedObj();
// the result is compared, as maps, with a reference derived from the statement.

import (
	"fmt"
	"sort"
	"sync/atomic"
	"testing"
	"time"

	"pgregory.net/rapid"

	"github.com/milvus-io/milvus-proto/go-api/v2/schemapb"
	"github.com/milvus-io/milvus/pkg/util/tsoutil"

	"github.com/zilliztech/milvus-cdc/core/api"
	"github.com/zilliztech/milvus-cdc/core/config"
	"github.com/zilliztech/milvus-cdc/core/pb"
	"github.com/zilliztech/milvus-cdc/core/reader"
	"github.com/zilliztech/milvus-cdc/core/util"

	"verifharness/fakes/catalog"
	"verifharness/fakes/etcdsrv"
	"verifharness/fakes/target"
	"verifharness/stats"
)

var caseSeq int64

type dbRec struct {
	id        int64
	name      string
	tombstone bool
}

type collRec struct {
	id, dbID  int64
	name      string
	state     pb.CollectionState
	tombstone bool
	ctime     uint64
}

type partRec struct {
	id, collID int64
	name       string
	state      pb.PartitionState
	tombstone  bool
	ctime      uint64
}

type c15Catalog struct {
	dbs   []*dbRec
	colls []*collRec
	parts []*partRec
	now   time.Time
	// downstream database holding the same-named collection, for collections whose source database is gone ("" = nowhere)
	downDB map[string]string
	idStart string
}

func genCatalog(t *rapid.T, withTarget bool) *c15Catalog {
	c := &c15Catalog{downDB: map[string]string{}}
	base := time.Unix(1700000000, 0)
	tick := 0
	next := func() uint64 { tick += rapid.IntRange(1, 5).Draw(t, "dt"); return tsoutil.ComposeTSByTime(base.Add(time.Duration(tick)*time.Second), 0) }
	c.dbs = append(c.dbs, &dbRec{id: 1, name: "default"})
	ndb := rapid.IntRange(0, 2).Draw(t, "extraDBs")
	anyTomb := false
	for i := 0; i < ndb; i++ {
		d := &dbRec{id: int64(2 + i), name: fmt.Sprintf("db%d", 2+i)}
		// at most one database is gone upstream: the downstream search by collection name (what the real target client
		// does) cannot tell two dropped databases with a same-named collection apart
		if withTarget && !anyTomb && rapid.IntRange(0, 2).Draw(t, "dbTombstoned") == 0 {
			d.tombstone = true
			anyTomb = true
		}
		c.dbs = append(c.dbs, d)
	}
	// ids are allocated upwards from a drawn start, so that they may cross a power of ten within one catalog (etcd lists keys
	// as strings: ".../100" sorts before ".../98", the listing order is then not the creation order)
	cid := int64(rapid.SampledFrom([]int{100, 100, 96, 7, 997}).Draw(t, "firstCollectionID"))
	pid := int64(rapid.SampledFrom([]int{1000, 1000, 95, 8, 9996}).Draw(t, "firstPartitionID"))
	c.idStart = fmt.Sprintf("%d/%d", cid, pid)
	for _, d := range c.dbs {
		for _, name := range []string{"c1", "c2"} {
			if rapid.IntRange(0, 3).Draw(t, "nameUsed") == 0 {
				continue
			}
			nDropped := rapid.IntRange(0, 2).Draw(t, "droppedIncarnations")
			if d.tombstone {
				// collections of a dropped database are dropped as well
				if nDropped == 0 {
					nDropped = 1
				}
			}
			live := !d.tombstone && rapid.IntRange(0, 2).Draw(t, "liveIncarnation") != 0
			addParts := func(cr *collRec, collLive bool) {
				if cr.tombstone {
					return
				}
				cid2 := cr.id
				pid++
				c.parts = append(c.parts, &partRec{id: pid, collID: cid2, name: "_default", state: pb.PartitionState_PartitionCreated, ctime: cr.ctime})
				for _, pn := range []string{"p1", "p2"} {
					if rapid.IntRange(0, 2).Draw(t, "partUsed") == 0 {
						continue
					}
					nd := rapid.IntRange(0, 2).Draw(t, "droppedPartIncarnations")
					for k := 0; k < nd; k++ {
						pid++
						pr := &partRec{id: pid, collID: cid2, name: pn, ctime: next()}
						switch rapid.IntRange(0, 2).Draw(t, "droppedPartState") {
						case 0:
							pr.state = pb.PartitionState_PartitionDropped
						case 1:
							pr.state = pb.PartitionState_PartitionDropping
						default:
							pr.tombstone = true
						}
						c.parts = append(c.parts, pr)
					}
					if collLive && rapid.Bool().Draw(t, "livePart") {
						pid++
						st := pb.PartitionState_PartitionCreated
						if rapid.IntRange(0, 5).Draw(t, "partCreating") == 0 {
							st = pb.PartitionState_PartitionCreating
						}
						c.parts = append(c.parts, &partRec{id: pid, collID: cid2, name: pn, state: st, ctime: next()})
					}
				}
			}
			for k := 0; k < nDropped; k++ {
				cid++
				cr := &collRec{id: cid, dbID: d.id, name: name, ctime: next()}
				switch rapid.IntRange(0, 2).Draw(t, "droppedState") {
				case 0:
					cr.state = pb.CollectionState_CollectionDropped
				case 1:
					cr.state = pb.CollectionState_CollectionDropping
				default:
					cr.tombstone = true
				}
				c.colls = append(c.colls, cr)
				addParts(cr, false)
			}
			if live {
				cid++
				st := pb.CollectionState_CollectionCreated
				if rapid.IntRange(0, 5).Draw(t, "creating") == 0 {
					st = pb.CollectionState_CollectionCreating
				}
				cr := &collRec{id: cid, dbID: d.id, name: name, state: st, ctime: next()}
				c.colls = append(c.colls, cr)
				addParts(cr, true)
			}
			if d.tombstone {
				c.downDB[fmt.Sprintf("%d/%s", d.id, name)] = rapid.SampledFrom([]string{"", "ddb" + fmt.Sprint(d.id)}).Draw(t, "downstreamDB")
			}
		}
	}
	c.now = base.Add(time.Duration(tick+rapid.IntRange(1, 100).Draw(t, "nowDelta")) * time.Second)
	return c
}

func (c *c15Catalog) write(w *catalog.Writer) error {
	for _, d := range c.dbs {
		if err := w.PutDatabase(d.id, d.name, d.tombstone); err != nil {
			return err
		}
	}
	for _, cr := range c.colls {
		var info *pb.CollectionInfo
		if !cr.tombstone {
			info = &pb.CollectionInfo{ID: cr.id, DbId: cr.dbID, Schema: &schemapb.CollectionSchema{Name: cr.name}, CreateTime: cr.ctime, State: cr.state,
				VirtualChannelNames: []string{fmt.Sprintf("src-dml_0_%dv0", cr.id)}, PhysicalChannelNames: []string{"src-dml_0"}, ShardsNum: 1}
		}
		if err := w.PutCollection(cr.dbID, cr.id, info); err != nil {
			return err
		}
		if info != nil {
			if err := w.PutFields(cr.id); err != nil {
				return err
			}
		}
	}
	for _, pr := range c.parts {
		var info *pb.PartitionInfo
		if !pr.tombstone {
			info = &pb.PartitionInfo{PartitionID: pr.id, PartitionName: pr.name, CollectionId: pr.collID, State: pr.state, PartitionCreatedTimestamp: pr.ctime}
		}
		if err := w.PutPartition(pr.collID, pr.id, info); err != nil {
			return err
		}
	}
	return w.PutTSO(c.now)
}

type horizon struct {
	dropped  bool
	live     uint64 // create time of the live (Created) namesake, 0 if none
	creating uint64 // create time of a namesake still in Creating state, 0 if none
}

// reference computes, from the statement, the admissible table: for every key the set of admissible horizons.
func (c *c15Catalog) reference(withTarget bool) (map[string]map[string][]uint64, uint64) {
	tt := tsoutil.ComposeTSByTime(c.now, 0)
	dbByID := map[int64]*dbRec{}
	for _, d := range c.dbs {
		dbByID[d.id] = d
	}
	collByID := map[int64]*collRec{}
	for _, cr := range c.colls {
		collByID[cr.id] = cr
	}
	res := map[string]map[string][]uint64{util.DroppedDatabaseKey: {}, util.DroppedCollectionKey: {}, util.DroppedPartitionKey: {}}
	// the database name under which the object's names are keyed: its own database, or - when that is gone upstream -
	// the downstream database that still holds the collection
	dbNameOf := func(cr *collRec) (string, bool) {
		d := dbByID[cr.dbID]
		if !d.tombstone {
			return d.name, true
		}
		dn := c.downDB[fmt.Sprintf("%d/%s", d.id, cr.name)]
		if dn == "" {
			return "", false
		}
		_, dk := util.GetDBInfoKeys(dn)
		res[util.DroppedDatabaseKey][dk] = []uint64{tt - 1}
		return dn, true
	}
	collH := map[string]*horizon{}
	for _, cr := range c.colls {
		if cr.tombstone {
			continue
		}
		dbn, ok := dbNameOf(cr)
		if !ok {
			continue
		}
		_, key := util.GetCollectionInfoKeys(cr.name, dbn)
		h := collH[key]
		if h == nil {
			h = &horizon{}
			collH[key] = h
		}
		switch cr.state {
		case pb.CollectionState_CollectionDropped, pb.CollectionState_CollectionDropping:
			h.dropped = true
		case pb.CollectionState_CollectionCreated:
			h.live = cr.ctime
		case pb.CollectionState_CollectionCreating:
			h.creating = cr.ctime
		}
	}
	partH := map[string]*horizon{}
	for _, pr := range c.parts {
		if pr.tombstone {
			continue
		}
		cr := collByID[pr.collID]
		if cr == nil || cr.tombstone {
			continue
		}
		dbn, ok := dbNameOf(cr)
		if !ok {
			continue
		}
		_, key := util.GetPartitionInfoKeys(pr.name, cr.name, dbn)
		h := partH[key]
		if h == nil {
			h = &horizon{}
			partH[key] = h
		}
		switch pr.state {
		case pb.PartitionState_PartitionDropped, pb.PartitionState_PartitionDropping:
			h.dropped = true
		case pb.PartitionState_PartitionCreated:
			h.live = pr.ctime
		case pb.PartitionState_PartitionCreating:
			h.creating = pr.ctime
		}
	}
	fill := func(dst map[string][]uint64, hs map[string]*horizon) {
		for k, h := range hs {
			if !h.dropped {
				continue
			}
			switch {
			case h.live != 0:
				dst[k] = []uint64{h.live - 1}
			case h.creating != 0:
				dst[k] = []uint64{h.creating - 1, tt - 1} // the statement does not say whether a creating namesake counts as live
			default:
				dst[k] = []uint64{tt - 1}
			}
		}
	}
	fill(res[util.DroppedCollectionKey], collH)
	fill(res[util.DroppedPartitionKey], partH)
	return res, tt
}

func propC15(t *rapid.T) {
	sc := stats.New("C15")
	cli, err := etcdsrv.Client()
	if err != nil {
		t.Fatalf("VERIF-TROUBLE etcd: %v", err)
	}
	defer cli.Close()
	ep, _ := etcdsrv.Endpoint()
	root := fmt.Sprintf("c15-%d-%d", time.Now().UnixNano(), atomic.AddInt64(&caseSeq, 1))
	w := &catalog.Writer{Cli: cli, Root: root}
	defer w.Clear()
	withTarget := rapid.Bool().Draw(t, "milvusTarget")
	c := genCatalog(t, withTarget)
	if err := c.write(w); err != nil {
		t.Fatalf("VERIF-TROUBLE write catalog: %v", err)
	}
	var tgt api.TargetAPI
	if withTarget {
		ft := target.New()
		ft.DBOf = func(coll, db string) (string, error) {
			if !reader.IsDroppedObject(db) {
				return db, nil
			}
			// the real client lists the downstream databases and returns the one holding a collection of that name
			for k, v := range c.downDB {
				if v != "" && len(k) > 2 && k[len(k)-len(coll):] == coll && k[len(k)-len(coll)-1] == '/' {
					return v, nil
				}
			}
			return "", util.NotFoundDatabase
		}
		tgt = ft
	}
	op, err := reader.NewEtcdOpWithAddress([]string{ep}, root, "meta", "_default", config.EtcdRetryConfig{Retry: config.RetrySettings{RetryTimes: 1, InitBackOff: 1, MaxBackOff: 1}}, tgt)
	if err != nil {
		t.Fatalf("VERIF-TROUBLE NewEtcdOp: %v", err)
	}
	defer etcdsrv.CloseClientsOf(op) // EtcdOp never closes its client
	got := op.GetAllDroppedObj()
	want, tt := c.reference(withTarget)
	for _, kind := range []string{util.DroppedDatabaseKey, util.DroppedCollectionKey, util.DroppedPartitionKey} {
		for k, adm := range want[kind] {
			v, ok := got[kind][k]
			if !ok {
				t.Fatalf("%s table lacks an entry for %q (has a dropped incarnation); expected horizon %v (now-1 = %d)\ncatalog: %s\ngot: %v", kind, k, adm, tt-1, c.describe(), got[kind])
			}
			okv := false
			for _, a := range adm {
				okv = okv || a == v
			}
			if !okv {
				t.Fatalf("%s table has horizon %d for %q, expected %v (now-1 = %d)\ncatalog: %s", kind, v, k, adm, tt-1, c.describe())
			}
		}
		for k, v := range got[kind] {
			if _, ok := want[kind][k]; !ok {
				t.Fatalf("%s table has an entry %q=%d but no such name has a dropped incarnation (operations on it would be skipped)\ncatalog: %s\nexpected keys: %v", kind, k, v, c.describe(), keys(want[kind]))
			}
		}
	}
	both, multiDB := false, false
	for _, adm := range want[util.DroppedCollectionKey] {
		if len(adm) == 1 && adm[0] != tt-1 {
			both = true
		}
	}
	for _, adm := range want[util.DroppedPartitionKey] {
		if len(adm) == 1 && adm[0] != tt-1 {
			both = true
		}
	}
	names := map[string]map[int64]bool{}
	for _, cr := range c.colls {
		if names[cr.name] == nil {
			names[cr.name] = map[int64]bool{}
		}
		names[cr.name][cr.dbID] = true
	}
	for _, m := range names {
		if len(m) > 1 {
			multiDB = true
		}
	}
	sc.ClassIf(withTarget, "milvus-target")
	sc.ClassIf(!withTarget, "no-target(kafka)")
	sc.ClassIf(both, "dropped+live-namesake")
	sc.ClassIf(multiDB, "same-name-in-several-databases")
	sc.ClassIf(len(want[util.DroppedDatabaseKey]) > 0, "database-gone-upstream-present-downstream")
	sc.ClassIf(c.idStart != "100/1000", "ids-crossing-a-power-of-ten")
	sc.Count("entries_compared", len(want[util.DroppedCollectionKey])+len(want[util.DroppedPartitionKey])+len(want[util.DroppedDatabaseKey]))
	sc.NonTrivial(both || multiDB)
	sc.Fingerprint(c.describe())
	sc.Sample(map[string]any{"catalog": c.describe(), "target": withTarget, "table": got})
	sc.Done()
}

func keys(m map[string][]uint64) []string {
	var r []string
	for k := range m {
		r = append(r, k)
	}
	sort.Strings(r)
	return r
}

func (c *c15Catalog) describe() string {
	s := ""
	for _, d := range c.dbs {
		s += fmt.Sprintf("db%d=%s(tomb=%v) ", d.id, d.name, d.tombstone)
	}
	for _, cr := range c.colls {
		s += fmt.Sprintf("coll%d{db%d %s %v tomb=%v ct=%d} ", cr.id, cr.dbID, cr.name, cr.state, cr.tombstone, cr.ctime>>18)
	}
	for _, pr := range c.parts {
		if pr.name == "_default" {
			continue
		}
		s += fmt.Sprintf("part%d{coll%d %s %v tomb=%v ct=%d} ", pr.id, pr.collID, pr.name, pr.state, pr.tombstone, pr.ctime>>18)
	}
	s += fmt.Sprintf("down=%v", c.downDB)
	return s
}

func TestC15(t *testing.T) { rapid.Check(t, propC15) }
