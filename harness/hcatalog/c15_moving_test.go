package hcatalog

// C15 while the source keeps working. The snapshot is several reads (source time, databases, collections, fields, partitions);
// the harness owns their interleaving with writes of the source: before a drawn read the source advances its saved time
// (as root-coord does when it reserves the next window) and creates a new incarnation of a name with a creation time inside the
// new window, i.e. above every source time that could have been read before. Whatever the snapshot saw, its table must not
// make the writer skip a live object: no entry may carry a horizon at or above the creation time of a live incarnation of
// that name in the final catalog ("a time strictly before the creation time of a newer live incarnation ... operations on
// live objects are never skipped because of the snapshot"). Completeness of the table is not judged here (the statement's
// "exactly" is about the catalog the snapshot observed, which is not one catalog any more) - TestC15 does that.

import (
	"fmt"
	"sync/atomic"
	"testing"
	"time"

	"pgregory.net/rapid"

	"github.com/milvus-io/milvus-proto/go-api/v2/schemapb"
	"github.com/milvus-io/milvus/pkg/util/tsoutil"

	"github.com/zilliztech/milvus-cdc/core/config"
	"github.com/zilliztech/milvus-cdc/core/pb"
	"github.com/zilliztech/milvus-cdc/core/reader"
	"github.com/zilliztech/milvus-cdc/core/util"

	"verifharness/fakes/catalog"
	"verifharness/fakes/etcdsrv"
	"verifharness/stats"
)

type sourceWrite struct {
	at       int    // index of the snapshot read ahead of which the write happens
	kind     string // "collection" | "partition"
	dbID     int64
	collName string
	collID   int64 // partition: the live collection it is created in
	partName string
	advance  int // seconds the saved source time moves forward first
	offset   int // creation time = old saved time + offset seconds (0 < offset <= advance)
	done     bool
	ctime    uint64
	newID    int64
}

func propC15Moving(t *rapid.T) {
	sc := stats.New("C15")
	cli, err := etcdsrv.Client()
	if err != nil {
		t.Fatalf("VERIF-TROUBLE etcd: %v", err)
	}
	defer cli.Close()
	ep, _ := etcdsrv.Endpoint()
	root := fmt.Sprintf("c15m-%d-%d", time.Now().UnixNano(), atomic.AddInt64(&caseSeq, 1))
	w := &catalog.Writer{Cli: cli, Root: root}
	defer w.Clear()
	c := genCatalog(t, false)
	if err := c.write(w); err != nil {
		t.Fatalf("VERIF-TROUBLE write catalog: %v", err)
	}
	dbByID := map[int64]*dbRec{}
	for _, d := range c.dbs {
		dbByID[d.id] = d
	}

	// candidates: names of collections / partitions, preferring those that have a dropped incarnation and no live one
	type cand struct {
		w      sourceWrite
		weight int
	}
	var cands []cand
	type ck struct {
		db   int64
		name string
	}
	collDropped, collLive := map[ck]bool{}, map[ck]*collRec{}
	for _, cr := range c.colls {
		if cr.tombstone {
			continue
		}
		k := ck{cr.dbID, cr.name}
		switch cr.state {
		case pb.CollectionState_CollectionDropped, pb.CollectionState_CollectionDropping:
			collDropped[k] = true
		default:
			collLive[k] = cr
		}
	}
	for _, d := range c.dbs {
		for _, name := range []string{"c1", "c2"} {
			k := ck{d.id, name}
			if collLive[k] != nil {
				continue
			}
			wt := 1
			if collDropped[k] {
				wt = 6
			}
			cands = append(cands, cand{sourceWrite{kind: "collection", dbID: d.id, collName: name}, wt})
		}
	}
	type pk struct {
		coll int64
		name string
	}
	partDropped, partLive := map[pk]bool{}, map[pk]bool{}
	for _, pr := range c.parts {
		if pr.tombstone {
			continue
		}
		k := pk{pr.collID, pr.name}
		switch pr.state {
		case pb.PartitionState_PartitionDropped, pb.PartitionState_PartitionDropping:
			partDropped[k] = true
		default:
			partLive[k] = true
		}
	}
	for _, cr := range collLive {
		if cr.state != pb.CollectionState_CollectionCreated {
			continue
		}
		for _, pn := range []string{"p1", "p2"} {
			k := pk{cr.id, pn}
			if partLive[k] {
				continue
			}
			wt := 1
			if partDropped[k] {
				wt = 6
			}
			cands = append(cands, cand{sourceWrite{kind: "partition", dbID: cr.dbID, collName: cr.name, collID: cr.id, partName: pn}, wt})
		}
	}
	// deterministic order (the maps above are only looked up, but collLive was ranged over)
	sortCands := func() {
		for i := 1; i < len(cands); i++ {
			for j := i; j > 0; j-- {
				a, b := cands[j-1].w, cands[j].w
				ka := fmt.Sprintf("%s/%d/%s/%d/%s", a.kind, a.dbID, a.collName, a.collID, a.partName)
				kb := fmt.Sprintf("%s/%d/%s/%d/%s", b.kind, b.dbID, b.collName, b.collID, b.partName)
				if ka > kb {
					cands[j-1], cands[j] = cands[j], cands[j-1]
				}
			}
		}
	}
	sortCands()
	if len(cands) == 0 {
		t.Skip("no name free for a new incarnation")
	}
	var pool []int
	for i, cd := range cands {
		for k := 0; k < cd.weight; k++ {
			pool = append(pool, i)
		}
	}
	nw := rapid.IntRange(1, 3).Draw(t, "sourceWrites")
	var writes []*sourceWrite
	used := map[int]bool{}
	for i := 0; i < nw; i++ {
		ci := rapid.SampledFrom(pool).Draw(t, "target")
		if used[ci] {
			continue
		}
		used[ci] = true
		sw := cands[ci].w
		sw.at = rapid.IntRange(0, 5).Draw(t, "beforeRead") // the snapshot makes five reads: source time, databases, collections, (fields,) partitions
		sw.advance = rapid.IntRange(1, 6).Draw(t, "advance")
		sw.offset = rapid.IntRange(1, sw.advance).Draw(t, "offset")
		writes = append(writes, &sw)
	}

	op, err := reader.NewEtcdOpWithAddress([]string{ep}, root, "meta", "_default", config.EtcdRetryConfig{Retry: config.RetrySettings{RetryTimes: 1, InitBackOff: 1, MaxBackOff: 1}}, nil)
	if err != nil {
		t.Fatalf("VERIF-TROUBLE NewEtcdOp: %v", err)
	}
	defer etcdsrv.CloseClientsOf(op)
	clis := etcdsrv.ClientsOf(op)
	if len(clis) != 1 {
		t.Fatalf("VERIF-TROUBLE: expected one etcd client inside EtcdOp, found %d", len(clis))
	}
	now := c.now
	nextColl, nextPart := int64(50000), int64(60000)
	var reads []string
	var hookErr error
	etcdsrv.HookReads(clis[0], func(n int, key string) {
		reads = append(reads, key)
		for _, sw := range writes {
			if sw.done || sw.at != n {
				continue
			}
			sw.done = true
			old := now
			now = now.Add(time.Duration(sw.advance) * time.Second)
			if err := w.PutTSO(now); err != nil {
				hookErr = err
				return
			}
			// strictly above the old saved time, at most the new one
			sw.ctime = tsoutil.ComposeTSByTime(old.Add(time.Duration(sw.offset)*time.Second), 0)
			if sw.kind == "collection" {
				nextColl++
				sw.newID = nextColl
				info := &pb.CollectionInfo{ID: sw.newID, DbId: sw.dbID, Schema: &schemapb.CollectionSchema{Name: sw.collName}, CreateTime: sw.ctime,
					State: pb.CollectionState_CollectionCreated, VirtualChannelNames: []string{fmt.Sprintf("src-dml_0_%dv0", sw.newID)},
					PhysicalChannelNames: []string{"src-dml_0"}, ShardsNum: 1}
				if err := w.PutCollection(sw.dbID, sw.newID, info); err != nil {
					hookErr = err
					return
				}
				if err := w.PutFields(sw.newID); err != nil {
					hookErr = err
					return
				}
				nextPart++
				hookErr = w.PutPartition(sw.newID, nextPart, &pb.PartitionInfo{PartitionID: nextPart, PartitionName: "_default", CollectionId: sw.newID,
					State: pb.PartitionState_PartitionCreated, PartitionCreatedTimestamp: sw.ctime})
			} else {
				nextPart++
				sw.newID = nextPart
				hookErr = w.PutPartition(sw.collID, sw.newID, &pb.PartitionInfo{PartitionID: sw.newID, PartitionName: sw.partName, CollectionId: sw.collID,
					State: pb.PartitionState_PartitionCreated, PartitionCreatedTimestamp: sw.ctime})
			}
		}
	})
	got := op.GetAllDroppedObj()
	if hookErr != nil {
		t.Fatalf("VERIF-TROUBLE source write: %v", hookErr)
	}

	describe := func() string {
		s := c.describe() + fmt.Sprintf(" savedTime0=%d | snapshot reads: %d |", tsoutil.ComposeTSByTime(c.now, 0)>>18, len(reads))
		for _, sw := range writes {
			s += fmt.Sprintf(" [before read %d: saved time +%ds, create %s db%d/%s", sw.at, sw.advance, sw.kind, sw.dbID, sw.collName)
			if sw.kind == "partition" {
				s += "/" + sw.partName
			}
			s += fmt.Sprintf(" id=%d ct=%d done=%v]", sw.newID, sw.ctime>>18, sw.done)
		}
		return s
	}
	// every live incarnation of the final catalog against the table
	checkLive := func(kind, key string, ctime uint64, what string) {
		if h, ok := got[kind][key]; ok && h >= ctime {
			t.Fatalf("%s table gives %q the horizon %d, not below the creation time %d of its live incarnation %s: the writer seeded with it skips the creation and the first operations of a live object\n%s\ntable: %v",
				kind, key, h, ctime, what, describe(), got[kind])
		}
	}
	for _, cr := range c.colls {
		if cr.tombstone || (cr.state != pb.CollectionState_CollectionCreated && cr.state != pb.CollectionState_CollectionCreating) {
			continue
		}
		_, key := util.GetCollectionInfoKeys(cr.name, dbByID[cr.dbID].name)
		checkLive(util.DroppedCollectionKey, key, cr.ctime, fmt.Sprintf("coll%d", cr.id))
	}
	collByID := map[int64]*collRec{}
	for _, cr := range c.colls {
		collByID[cr.id] = cr
	}
	for _, pr := range c.parts {
		if pr.tombstone || (pr.state != pb.PartitionState_PartitionCreated && pr.state != pb.PartitionState_PartitionCreating) {
			continue
		}
		cr := collByID[pr.collID]
		// a partition record of a dropped collection is not a live object
		if cr == nil || cr.tombstone || (cr.state != pb.CollectionState_CollectionCreated && cr.state != pb.CollectionState_CollectionCreating) {
			continue
		}
		_, key := util.GetPartitionInfoKeys(pr.name, cr.name, dbByID[cr.dbID].name)
		checkLive(util.DroppedPartitionKey, key, pr.ctime, fmt.Sprintf("part%d", pr.id))
	}
	fired, unseenWindow, replaced := 0, false, false
	for _, sw := range writes {
		if !sw.done {
			continue
		}
		fired++
		unseenWindow = unseenWindow || sw.at >= 2
		if sw.kind == "collection" {
			_, key := util.GetCollectionInfoKeys(sw.collName, dbByID[sw.dbID].name)
			checkLive(util.DroppedCollectionKey, key, sw.ctime, fmt.Sprintf("coll%d (created while the snapshot was taken)", sw.newID))
			_, pkey := util.GetPartitionInfoKeys("_default", sw.collName, dbByID[sw.dbID].name)
			checkLive(util.DroppedPartitionKey, pkey, sw.ctime, "its default partition")
			replaced = replaced || collDropped[ck{sw.dbID, sw.collName}]
		} else {
			_, key := util.GetPartitionInfoKeys(sw.partName, sw.collName, dbByID[sw.dbID].name)
			checkLive(util.DroppedPartitionKey, key, sw.ctime, fmt.Sprintf("part%d (created while the snapshot was taken)", sw.newID))
			replaced = replaced || partDropped[pk{sw.collID, sw.partName}]
		}
	}
	sc.Class("moving-source")
	sc.ClassIf(fired > 0, "moving-source:write-happened-during-snapshot")
	sc.ClassIf(fired > 0 && replaced, "moving-source:dropped-name-created-again-during-snapshot")
	sc.ClassIf(unseenWindow, "moving-source:write-after-the-second-read")
	sc.Count("snapshot_reads", len(reads))
	sc.NonTrivial(fired > 0 && replaced)
	sc.Fingerprint(describe())
	sc.Sample(map[string]any{"moving_source": describe(), "table": got})
	sc.Done()
}

func TestC15_MovingSource(t *testing.T) { rapid.Check(t, propC15Moving) }
