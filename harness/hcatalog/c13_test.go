package hcatalog

// C13 — no source collection or partition is missed or double-started at task start.
//
// Real EtcdOp over a real (embedded) etcd holding a generated, evolving source catalog; real CollectionReader; real
// replicateChannelManager over a fake dispatcher / fake downstream. A decorating MetaOp performs the generated catalog
// writes at chosen reader steps: before the reader starts, after the watches are opened (before the listing), after the
// collection listing, after the partition listing (before StartWatch), and after StartWatch.

import (
	"context"
	"fmt"
	"sort"
	"sync"
	"sync/atomic"
	"testing"
	"time"

	"pgregory.net/rapid"

	"github.com/milvus-io/milvus-proto/go-api/v2/commonpb"
	"github.com/milvus-io/milvus-proto/go-api/v2/schemapb"
	"github.com/milvus-io/milvus/pkg/util/tsoutil"

	"github.com/zilliztech/milvus-cdc/core/api"
	"github.com/zilliztech/milvus-cdc/core/config"
	"github.com/zilliztech/milvus-cdc/core/meta"
	"github.com/zilliztech/milvus-cdc/core/model"
	"github.com/zilliztech/milvus-cdc/core/pb"
	"github.com/zilliztech/milvus-cdc/core/reader"

	"verifharness/fakes/catalog"
	"verifharness/fakes/dispatch"
	"verifharness/fakes/etcdsrv"
	"verifharness/fakes/store"
	"verifharness/fakes/target"
	"verifharness/quiesce"
	"verifharness/stats"
)

type cwrite struct {
	desc string
	do   func(w *catalog.Writer) error
}

type c13Coll struct {
	id, dbID int64
	db, name string
	state    string // creating created dropping dropped tombstone aborted
	ctime    uint64
	parts    map[string]*c13Part
	vchan    string
}

type c13Part struct {
	id    int64
	name  string
	state string
}

type hookedMetaOp struct {
	api.MetaOp
	after func(step string)
}

func (h *hookedMetaOp) WatchPartition(ctx context.Context, f api.PartitionFilter) {
	h.MetaOp.WatchPartition(ctx, f)
	h.after("watches-open")
}

func (h *hookedMetaOp) GetAllCollection(ctx context.Context, f api.CollectionFilter) ([]*pb.CollectionInfo, error) {
	r, err := h.MetaOp.GetAllCollection(ctx, f)
	h.after("collections-listed")
	return r, err
}

func (h *hookedMetaOp) GetAllPartition(ctx context.Context, f api.PartitionFilter) ([]*pb.PartitionInfo, error) {
	r, err := h.MetaOp.GetAllPartition(ctx, f)
	h.after("partitions-listed")
	return r, err
}

type spyManager struct {
	api.ChannelManager
	mu      sync.Mutex
	starts  map[int64]int
	dropped map[int64]bool
	addPart map[string]int
	startDB map[int64]string // database name each collection was started under
}

func (s *spyManager) StartReadCollection(ctx context.Context, db *model.DatabaseInfo, info *pb.CollectionInfo, seek []*msgpb_MsgPosition, m map[string]uint64) error {
	s.mu.Lock()
	s.starts[info.ID]++
	if s.startDB == nil {
		s.startDB = map[int64]string{}
	}
	s.startDB[info.ID] = db.Name
	s.mu.Unlock()
	return s.ChannelManager.StartReadCollection(ctx, db, info, seek, m)
}

func (s *spyManager) AddDroppedCollection(ids []int64) {
	s.mu.Lock()
	for _, id := range ids {
		s.dropped[id] = true
	}
	s.mu.Unlock()
	s.ChannelManager.AddDroppedCollection(ids)
}

func (s *spyManager) AddPartition(ctx context.Context, db *model.DatabaseInfo, c *pb.CollectionInfo, p *pb.PartitionInfo) error {
	s.mu.Lock()
	s.addPart[fmt.Sprintf("%d/%d", c.ID, p.PartitionID)]++
	s.mu.Unlock()
	return s.ChannelManager.AddPartition(ctx, db, c, p)
}

func propC13(t *rapid.T) {
	quiesce.SetBaseline() // goroutines left behind by earlier cases of this process are not part of this case
	sc := stats.New("C13")
	cli, err := etcdsrv.Client()
	if err != nil {
		t.Fatalf("VERIF-TROUBLE etcd: %v", err)
	}
	defer cli.Close()
	ep, _ := etcdsrv.Endpoint()
	id := atomic.AddInt64(&caseSeq, 1)
	root := fmt.Sprintf("c13-%d-%d", time.Now().UnixNano(), id)
	w := &catalog.Writer{Cli: cli, Root: root}
	defer w.Clear()

	// ---- catalog history
	base := time.Unix(1700000000, 0)
	tick := 0
	nextTs := func() uint64 { tick++; return tsoutil.ComposeTSByTime(base.Add(time.Duration(tick)*time.Second), 0) }
	dbNames := map[int64]string{1: "default", 2: "db2"}
	var writes []cwrite
	writes = append(writes, cwrite{"db default", func(w *catalog.Writer) error { return w.PutDatabase(1, "default", false) }},
		cwrite{"tso", func(w *catalog.Writer) error { return w.PutTSO(base.Add(time.Hour)) }})
	fixedPrefix := len(writes)
	// the second database is created when it is first used: its creation is part of the history and may fall into any phase,
	// also after the task has started
	db2Created := false
	var colls []*c13Coll
	liveByName := map[string]*c13Coll{}
	cid, pid := int64(100), int64(1000)
	putColl := func(c *c13Coll, st pb.CollectionState, stName string) cwrite {
		return cwrite{fmt.Sprintf("coll%d(%s.%s)->%s", c.id, c.db, c.name, stName), func(w *catalog.Writer) error {
			if stName == "tombstone" {
				return w.PutCollection(c.dbID, c.id, nil)
			}
			info := &pb.CollectionInfo{ID: c.id, DbId: c.dbID, Schema: &schemapb.CollectionSchema{Name: c.name}, CreateTime: c.ctime, State: st,
				VirtualChannelNames: []string{c.vchan}, PhysicalChannelNames: []string{"src-dml_0"}, ShardsNum: 1,
				StartPositions: []*commonpb.KeyDataPair{{Key: "src-dml_0", Data: []byte("start")}}}
			if stName == "creating" {
				if err := w.PutFields(c.id); err != nil {
					return err
				}
			}
			return w.PutCollection(c.dbID, c.id, info)
		}}
	}
	putPart := func(c *c13Coll, p *c13Part, st pb.PartitionState, stName string) cwrite {
		return cwrite{fmt.Sprintf("part%d(coll%d.%s)->%s", p.id, c.id, p.name, stName), func(w *catalog.Writer) error {
			if stName == "tombstone" {
				return w.PutPartition(c.id, p.id, nil)
			}
			return w.PutPartition(c.id, p.id, &pb.PartitionInfo{PartitionID: p.id, PartitionName: p.name, CollectionId: c.id, State: st, PartitionCreatedTimestamp: nextTs()})
		}}
	}
	steps := rapid.IntRange(1, 10).Draw(t, "historyLen")
	for i := 0; i < steps; i++ {
		dbID := int64(rapid.IntRange(1, 2).Draw(t, "db"))
		name := rapid.SampledFrom([]string{"c1", "c2"}).Draw(t, "name")
		key := fmt.Sprintf("%d/%s", dbID, name)
		c := liveByName[key]
		if dbID == 2 && !db2Created {
			db2Created = true
			writes = append(writes, cwrite{"db db2", func(w *catalog.Writer) error { return w.PutDatabase(2, "db2", false) }})
		}
		if c == nil {
			cid++
			c = &c13Coll{id: cid, dbID: dbID, db: dbNames[dbID], name: name, ctime: nextTs(), parts: map[string]*c13Part{}, vchan: fmt.Sprintf("src-dml_0_%dv0", cid)}
			colls = append(colls, c)
			writes = append(writes, putColl(c, pb.CollectionState_CollectionCreating, "creating"))
			pid++
			dp := &c13Part{id: pid, name: "_default", state: "created"}
			c.parts["_default"] = dp
			writes = append(writes, putPart(c, dp, pb.PartitionState_PartitionCreated, "created"))
			if rapid.IntRange(0, 5).Draw(t, "abortCreate") == 0 {
				c.state = "aborted"
				writes = append(writes, putColl(c, 0, "tombstone"))
				continue
			}
			c.state = "created"
			writes = append(writes, putColl(c, pb.CollectionState_CollectionCreated, "created"))
			liveByName[key] = c
			continue
		}
		switch rapid.SampledFrom([]string{"drop", "createPart", "createPart", "dropPart", "touch"}).Draw(t, "action") {
		case "drop":
			c.state = "dropped"
			delete(liveByName, key)
			writes = append(writes, putColl(c, pb.CollectionState_CollectionDropping, "dropping"))
			if rapid.Bool().Draw(t, "fullyDropped") {
				writes = append(writes, putColl(c, pb.CollectionState_CollectionDropped, "dropped"))
				if rapid.Bool().Draw(t, "tombstoned") {
					c.state = "tombstone"
					writes = append(writes, putColl(c, 0, "tombstone"))
				}
			}
		case "createPart":
			pn := rapid.SampledFrom([]string{"p1", "p2"}).Draw(t, "part")
			if c.parts[pn] != nil && c.parts[pn].state == "created" {
				continue
			}
			pid++
			p := &c13Part{id: pid, name: pn, state: "created"}
			c.parts[pn] = p
			writes = append(writes, putPart(c, p, pb.PartitionState_PartitionCreating, "creating"), putPart(c, p, pb.PartitionState_PartitionCreated, "created"))
		case "dropPart":
			pn := rapid.SampledFrom([]string{"p1", "p2"}).Draw(t, "part")
			p := c.parts[pn]
			if p == nil || p.state != "created" {
				continue
			}
			p.state = "dropped"
			writes = append(writes, putPart(c, p, pb.PartitionState_PartitionDropping, "dropping"), putPart(c, p, pb.PartitionState_PartitionDropped, "dropped"))
		case "touch":
			// the catalog record of a live collection is rewritten (e.g. altered properties): a second notification
			writes = append(writes, putColl(c, pb.CollectionState_CollectionCreated, "created"))
		}
	}
	// ---- phases: non-decreasing cut points over the history
	phases := []string{"before-start", "watches-open", "collections-listed", "partitions-listed", "after-start-watch"}
	cuts := make([]int, len(phases)-1)
	prev := fixedPrefix
	for i := range cuts {
		cuts[i] = rapid.IntRange(prev, len(writes)).Draw(t, "cut")
		prev = cuts[i]
	}
	phaseOf := func(i int) string {
		for k, c := range cuts {
			if i < c {
				return phases[k]
			}
		}
		return phases[len(phases)-1]
	}
	var hist []string
	perform := func(phase string) {
		for i, wr := range writes {
			if phaseOf(i) == phase {
				if err := wr.do(w); err != nil {
					t.Fatalf("VERIF-TROUBLE catalog write %s: %v", wr.desc, err)
				}
				hist = append(hist, phase+": "+wr.desc)
			}
		}
	}
	inWindow := false
	for i := fixedPrefix; i < len(writes); i++ {
		if p := phaseOf(i); p == "watches-open" || p == "collections-listed" || p == "partitions-listed" {
			inWindow = true
		}
	}
	perform("before-start")

	// ---- system under test
	rid := fmt.Sprintf("c13-%d", id)
	taskID := "task-" + rid
	disp := dispatch.NewClient()
	tgt := target.New()
	tid := int64(9000)
	tgt.Auto = func(db, name string) *target.Coll {
		tid++
		return &target.Coll{DB: db, Name: name, ID: tid, VChannels: []string{fmt.Sprintf("tgt-dml_0_%dv0", tid)}, PChannels: []string{"tgt-dml_0"}, Partitions: map[string]int64{"_default": tid*10 + 1}, Hidden: map[string]int{}}
	}
	retry := config.RetrySettings{RetryTimes: 3, InitBackOff: 1, MaxBackOff: 1}
	etcdOp, err := reader.NewEtcdOpWithAddress([]string{ep}, root, "meta", "_default", config.EtcdRetryConfig{Retry: retry}, tgt)
	if err != nil {
		t.Fatalf("VERIF-TROUBLE NewEtcdOp: %v", err)
	}
	defer etcdsrv.CloseClientsOf(etcdOp) // EtcdOp never closes its client
	rm, _ := meta.NewReplicateMetaImpl(store.New())
	mgr, err := reader.NewReplicateChannelManager(disp, dispatch.NewFactory(), tgt, config.ReaderConfig{MessageBufferSize: 4, TTInterval: 10000000, Retry: retry, ReplicateID: rid}, etcdOp, rm, nil, "milvus")
	if err != nil {
		t.Fatalf("VERIF-TROUBLE manager: %v", err)
	}
	ctx, cancel := context.WithCancel(context.Background())
	defer cancel()
	mgr.SetCtx(ctx)
	spy := &spyManager{ChannelManager: mgr, starts: map[int64]int{}, dropped: map[int64]bool{}, addPart: map[string]int{}}
	var evMu sync.Mutex
	var events []*api.ReplicateAPIEvent
	var evCnt atomic.Int64
	go func() {
		for {
			select {
			case <-ctx.Done():
				return
			case ev := <-mgr.GetEventChan():
				evMu.Lock()
				events = append(events, ev)
				evMu.Unlock()
				evCnt.Add(1)
			}
		}
	}()
	selectAll := rapid.Bool().Draw(t, "selectAll")
	// a named selection names one collection of one database: default.c1 or db2.c1 (the sentinel collection of the default
	// database is always selected)
	selDB := "default"
	if !selectAll && rapid.Bool().Draw(t, "namedSelectionInSecondDatabase") {
		selDB = "db2"
	}
	selected := func(db, name string) bool {
		return selectAll || (db == selDB && name == "c1") || (db == "default" && name == "c1-sentinel")
	}
	should := func(d *model.DatabaseInfo, info *pb.CollectionInfo) (bool, bool) {
		return false, !d.Dropped && selected(d.Name, info.Schema.Name)
	}
	mop := &hookedMetaOp{MetaOp: etcdOp, after: func(step string) { perform(step) }}
	cr, err := reader.NewCollectionReader(taskID, spy, mop, nil, nil, should, config.ReaderConfig{Retry: retry})
	if err != nil {
		t.Fatalf("VERIF-TROUBLE NewCollectionReader: %v", err)
	}
	var errMu sync.Mutex
	var readErrs []error
	go func() {
		for {
			select {
			case <-ctx.Done():
				return
			case e := <-cr.ErrorChan():
				if e != nil {
					errMu.Lock()
					readErrs = append(readErrs, e)
					errMu.Unlock()
					evCnt.Add(1)
				}
			}
		}
	}()
	func() {
		defer func() {
			if r := recover(); r != nil {
				t.Fatalf("the reader panicked (the service would crash): %v\nselectAll=%v\n%v\n%s", r, selectAll, hist, quiesce.Dump())
			}
		}()
		cr.StartRead(ctx)
	}()
	perform("after-start-watch")
	// sentinels: the watchers deliver events in order, so once the sentinel collection and partition have been
	// notified every earlier catalog write has been seen by the watch loops
	sent := &c13Coll{id: 99999, dbID: 1, db: "default", name: "c1-sentinel", ctime: nextTs(), vchan: "src-dml_0_99999v0"}
	_ = putColl(sent, pb.CollectionState_CollectionCreating, "creating").do(w)
	_ = putColl(sent, pb.CollectionState_CollectionCreated, "created").do(w)
	_ = w.PutPartition(99999, 999990, &pb.PartitionInfo{PartitionID: 999990, PartitionName: "_default", CollectionId: 99999, State: pb.PartitionState_PartitionCreated})
	_ = w.PutPartition(99999, 999991, &pb.PartitionInfo{PartitionID: 999991, PartitionName: "psent", CollectionId: 99999, State: pb.PartitionState_PartitionCreated, PartitionCreatedTimestamp: nextTs()})
	deadline := time.Now().Add(30 * time.Second)
	for {
		spy.mu.Lock()
		ok := spy.starts[99999] > 0 && spy.addPart["99999/999991"] > 0
		spy.mu.Unlock()
		if ok {
			break
		}
		if time.Now().After(deadline) {
			if quiesce.Busy() == "" {
				spy.mu.Lock()
				sc, sp := spy.starts[99999], spy.addPart["99999/999991"]
				spy.mu.Unlock()
				t.Fatalf("a live collection (notified %d times) and its live non-default partition (notified %d times) created after StartWatch were not both started although the reader is idle\nselectAll=%v\n%v", sc, sp, selectAll, hist)
			}
			t.Fatalf("VERIF-TROUBLE sentinel objects were not notified within 30 s (selectAll=%v) starts=%v addPart=%v\n%s\n%v", selectAll, spy.starts[99999], spy.addPart["99999/999991"], quiesce.Dump(), hist)
		}
		time.Sleep(2 * time.Millisecond)
	}
	if busy, ok := quiesce.Wait(func() int { return int(evCnt.Load()) }, 60*time.Second); !ok {
		t.Fatalf("VERIF-TROUBLE quiescence not reached: %s", busy)
	}

	// ---- oracle
	errMu.Lock()
	errs := append([]error(nil), readErrs...)
	errMu.Unlock()
	desc := func() string {
		s := fmt.Sprintf("selectAll=%v\n", selectAll)
		for _, h := range hist {
			s += "  " + h + "\n"
		}
		return s
	}
	if len(errs) > 0 {
		t.Fatalf("the reader reported an error (the task would be paused): %v\n%s", errs[0], desc())
	}
	evMu.Lock()
	evs := append([]*api.ReplicateAPIEvent(nil), events...)
	evMu.Unlock()
	createPart := map[string]int{}
	for _, ev := range evs {
		switch ev.EventType {
		case api.ReplicateError:
			t.Fatalf("error event: %v\n%s", ev.Error, desc())
		case api.ReplicateCreatePartition:
			createPart[fmt.Sprintf("%d/%d", ev.CollectionInfo.ID, ev.PartitionInfo.PartitionID)]++
		}
	}
	mustStart, started := 0, 0
	for _, c := range colls {
		n := disp.RegisterCount(c.vchan)
		if n > 1 {
			t.Fatalf("collection %d (%s.%s) was started %d times\n%s", c.id, c.db, c.name, n, desc())
		}
		if n == 1 {
			started++
		}
		if !selected(c.db, c.name) || c.state == "aborted" {
			if n != 0 {
				t.Fatalf("collection %d (%s.%s, %s, selected=%v) must not be replicated but was started\n%s", c.id, c.db, c.name, c.state, selected(c.db, c.name), desc())
			}
			continue
		}
		if c.state == "created" {
			mustStart++
			if n != 1 {
				t.Fatalf("live collection %d (%s.%s) selected by the task was never started\n%s", c.id, c.db, c.name, desc())
			}
			spy.mu.Lock()
			sdb := spy.startDB[c.id]
			spy.mu.Unlock()
			if sdb != c.db {
				t.Fatalf("live collection %d (%s.%s) was started under the database name %q\n%s", c.id, c.db, c.name, sdb, desc())
			}
			for pn, p := range c.parts {
				if pn == "_default" {
					continue
				}
				k := fmt.Sprintf("%d/%d", c.id, p.id)
				if p.state == "created" && createPart[k] != 1 {
					t.Fatalf("live partition %s of collection %d (%s.%s) produced %d create-partition requests (downstream lacks it)\n%s", pn, c.id, c.db, c.name, createPart[k], desc())
				}
				if createPart[k] > 1 {
					t.Fatalf("partition %s of collection %d produced %d create-partition requests\n%s", pn, c.id, createPart[k], desc())
				}
			}
		}
	}
	var hs []string
	hs = append(hs, hist...)
	sort.Strings(hs)
	dbAfterStart := false
	for i, wr := range writes {
		if wr.desc == "db db2" && phaseOf(i) != "before-start" {
			dbAfterStart = true
		}
	}
	sc.ClassIf(dbAfterStart, "database-created-after-the-task-started")
	sc.ClassIf(inWindow, "write-between-watch-open-and-start-watch")
	sc.ClassIf(selectAll, "select-*")
	sc.ClassIf(!selectAll, "select-named")
	sc.ClassIf(!selectAll && selDB == "db2", "select-named-in-second-database")
	sc.Count("collections_that_must_start", mustStart)
	sc.Count("collections_started", started)
	sc.NonTrivial(inWindow && mustStart > 0)
	sc.Fingerprint(fmt.Sprint(selectAll, hist))
	sc.Sample(map[string]any{"select_all": selectAll, "catalog_writes_by_reader_step": hist})
	sc.Done()
}

func TestC13(t *testing.T) { rapid.Check(t, propC13) }
