package hcatalog

import "github.com/milvus-io/milvus-proto/go-api/v2/msgpb"

type msgpb_MsgPosition = msgpb.MsgPosition
